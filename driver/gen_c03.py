"""Definitions for the expander engine (C03 lint + structural oracle, C04 determinism, C20 pairs)."""
import random, itertools
import gen, emit

PRELUDE = """#![allow(unused, dead_code, non_snake_case, non_camel_case_types, clippy::all)]
use pbsupport::*;
use cglue::*;
use cglue::prelude::v1::*;
"""


def canonical_args(i=0):
    """one canonical instance of every argument shape class"""
    A = gen
    return [
        ("none", []),
        ("scalar", [A.AVal(0, "u32")]),
        ("bool", [A.AVal(0, "bool")]),
        ("float", [A.AVal(0, "f64")]),
        ("pod", [A.AVal(0, "Pod1")]),
        ("ref", [A.ARef(0, "u64")]),
        ("mutref", [A.AMutRef(0, "Pod1")]),
        ("slice", [A.ASlice(0, "u8")]),
        ("slice-zst", [A.ASlice(0, "Unit0")]),
        ("mutslice", [A.AMutSlice(0, "u32")]),
        ("str", [A.AStr(0)]),
        ("optref", [A.AOptRef(0, "u64")]),
        ("opt", [A.AOpt(0, "u32")]),
        ("opt-pod", [A.AOpt(0, "Pod1")]),
        ("opt-rawptr", [A.AOpt(0, "*const u8")]),
        ("opt-rawmutptr", [A.AOpt(0, "*mut u32")]),
        ("result", [A.ARes(0, "u8", "i32")]),
        ("into", [A.AInto(0, "u64", "u32")]),
        ("callback", [A.ACallback(0, "u32", False)]),
        ("iterator", [A.AIter(0, "u16")]),
        ("cslice", [A.ACSlice(0, "u8")]),
        ("rawptr", [A.ARawPtr(0, "u64")]),
        ("two-slices", [A.ASlice(0, "u8"), A.ASlice(1, "u64")]),
        ("str+mutslice", [A.AStr(0), A.AMutSlice(1, "u8")]),
        ("scalar+slice+opt", [A.AVal(0, "u8"), A.ASlice(1, "Pod1"), A.AOpt(2, "u64")]),
    ]


def canonical_rets(recv):
    R = gen
    mut = recv in ("mut", "pinmut")
    own = recv == "own"
    out = [("unit", R.RUnit()), ("scalar", R.RVal("u64")), ("pod", R.RVal("Pod1")), ("opt", R.ROpt("u32")), ("opt-pod", R.ROpt("Pod1")), ("opt-rawptr", R.ROpt("*const u8")),
           ("result", R.RRes("u8", "i32")), ("int-io", R.RIntRes("u64", "io")), ("int-unit-payload", R.RIntRes("()", "unit")),
           ("int-user", R.RIntRes("Pod1", "UErr")),
           ("int-alias-user", R.RIntRes("u64", "UErr", True)), ("int-alias-io", R.RIntRes("()", "io", True))]
    out += [("static-str", R.RStatic("str")), ("static-bytes", R.RStatic("bytes"))]
    if recv in ("ref", "mut", "own"):
        out.append(("child-owned", R.RChild("owned", False)))
        out.append(("childgroup-owned", R.RChild("owned", True)))
    if not own:
        out += [("str", R.RBorrow("str")), ("bytes", R.RBorrow("bytes")), ("words", R.RBorrow("words")), ("one", R.RBorrow("one")), ("optref", R.ROptRef())]
        if recv in ("ref", "mut"):
            out.append(("child-ref", R.RChild("ref", False)))
            out.append(("childgroup-ref", R.RChild("ref", True)))
            out.append(("res-child", R.RResChild()))
            out.append(("res-child-plain", R.RResChild(plain=True)))
        if mut:
            out += [("mutslice", R.RMutBorrow("mwords")), ("mutone", R.RMutBorrow("mone"))]
            if recv == "mut":
                out.append(("child-mut", R.RChild("mut", False)))
    return out


def single_method_traits():
    """the complete product receivers x argument shape classes x return shape classes x int_result"""
    out = []
    k = 0
    for recv in gen.RECVS:
        for (an, args0) in canonical_args():
            for (rn, ret) in canonical_rets(recv):
                for trait_ir in (False, True):
                    # fresh argument objects per trait (they carry indices)
                    args = [type(a)(*_ctor_args(a)) for a in args0]
                    if isinstance(ret, gen.RChild) and ret.mode != "owned" and any(a.reflike for a in args):
                        continue  # unsupported combination (see gen.gen_trait)
                    m = gen.Method(0, f"e{k}_0", recv, args, ret)
                    if getattr(ret, "alias", None):
                        m.attrs.append(f"#[int_result({ret.alias})]")
                    elif ret.int_result is True and not trait_ir:
                        m.attrs.append("#[int_result]")
                    if ret.int_result is False and trait_ir:
                        m.attrs.append("#[no_int_result]")
                    t = gen.Trait(f"E{k}", [m], trait_ir)
                    nontrivial = any(a.wrapped for a in args) or ret.wrapped
                    out.append((f"e{k}", t, nontrivial, f"{recv}/{an}/{rn}/{'int_result' if trait_ir else 'plain'}"))
                    k += 1
    return out


def _ctor_args(a):
    """re-create an argument object"""
    g = gen
    if isinstance(a, g.AStr):
        return (a.i,)
    if isinstance(a, g.ARes):
        return (a.i, a.a, a.b)
    if isinstance(a, g.AInto):
        return (a.i, a.to, a.frm)
    if isinstance(a, g.ACallback):
        return (a.i, a.t, a.closure)
    return (a.i, a.t)


def dummy_impl(t, ty):
    """an implementor with diverging bodies (only type-checked, never run)"""
    L = [f"pub struct {ty};", f"impl {t.use()} for {ty} {{"]
    for (name, attr, bound) in t.assocs():
        L.append(f"    type {name} = LeafImp;")
    for m in t.methods:
        L.append(f"    {m.sig(impl=True)} {{ loop {{}} }}")
    L.append("}")
    return "\n".join(L)


def probes(mid, t):
    """extern declarations that force the lint to look at the instantiated opaque types"""
    n = t.name
    ga = f", {t.generic}" if t.generic else ""
    return f"""
extern "C" {{
    pub fn probe_{mid}_box(o: &{n}Box<'static{ga}>);
    pub fn probe_{mid}_arcbox(o: &{n}ArcBox<'static{ga}>);
    pub fn probe_{mid}_mut(o: &{n}Mut<'static{ga}>);
    pub fn probe_{mid}_ref(o: &{n}Ref<'static{ga}>);
    pub fn probe_{mid}_arcref(o: &{n}ArcRef<'static{ga}>);
}}
"""


def make_defs(seed, n_random, n_groups, with_lint_extra=True):
    gen.FFI_STRICT = True
    try:
        return _make_defs(seed, n_random, n_groups)
    finally:
        gen.FFI_STRICT = False


def _make_defs(seed, n_random, n_groups):
    rng = random.Random(seed * 7919 + 13)
    defs = []
    for (mid, t, nt, label) in single_method_traits():
        defs.append({"id": mid, "kind": "trait", "src": emit.trait_def(t).replace("#[cglue_trait]\n", "", 1), "nontrivial": nt, "label": label,
                     "extra": PRELUDE + "//@@" + dummy_impl(t, "D" + mid) + probes(mid, t), "trait": t.name, "exported": [m.name for m in t.exported()]})
    # a trait-level result alias next to a method that opts out of integer coding (the only
    # hand-written definitions; see known_findings.json)
    class _T:
        generic = None
        def __init__(self, name):
            self.name = name
    for k, (ok_ty, body) in enumerate([("ResU<u64>", "Result<u8, u8>"), ("ResIo<()>", "Result<u32, i32>")]):
        tn, mid = f"Ea{k}", f"a{k}"
        alias = ok_ty.split("<")[0]
        src = (f"#[int_result({alias})]\npub trait {tn} {{\n    fn {mid}_0(&self) -> {ok_ty};\n"
               f"    #[no_int_result]\n    fn {mid}_1(&self, a0: u32) -> {body};\n}}\n")
        imp = (f"pub struct D{mid};\nimpl {tn} for D{mid} {{\n    fn {mid}_0(&self) -> {ok_ty} {{ loop {{}} }}\n"
               f"    fn {mid}_1(&self, a0: u32) -> {body} {{ loop {{}} }}\n}}")
        defs.append({"id": mid, "kind": "trait", "src": src, "nontrivial": True, "label": "trait-level-result-alias/no_int_result",
                     "extra": PRELUDE + "//@@" + imp + probes(mid, _T(tn)), "trait": tn, "exported": [f"{mid}_0", f"{mid}_1"]})
    # user-declared extern "C" methods with an integer-coded result spelled through a one-parameter alias
    for k, (attr_t, attr_m, ret) in enumerate([("#[int_result(ResU)]\n", "", "ResU<u64>"), ("", "#[int_result(ResIo)] ", "ResIo<u32>"), ("#[int_result(ResU)]\n", "", "ResU<()>")]):
        tn, mid = f"Eb{k}", f"b{k}"
        src = (f"{attr_t}#[allow(improper_ctypes_definitions)]\npub trait {tn} {{\n    {attr_m}extern \"C\" fn {mid}_0(&self, v: usize) -> {ret};\n"
               f"    fn {mid}_1(&self) -> u32;\n}}\n")
        imp = (f"pub struct D{mid};\nimpl {tn} for D{mid} {{\n    #[allow(improper_ctypes_definitions)]\n    extern \"C\" fn {mid}_0(&self, v: usize) -> {ret} {{ loop {{}} }}\n"
               f"    fn {mid}_1(&self) -> u32 {{ loop {{}} }}\n}}")
        defs.append({"id": mid, "kind": "trait", "src": src, "nontrivial": True, "label": "extern-c-method/int_result-alias", "lint": False,   # (the user's own extern "C" signature carries the Result: only the vtable entry is judged)
                     "extra": PRELUDE + "//@@" + imp + probes(mid, _T(tn)), "trait": tn, "exported": [f"{mid}_0", f"{mid}_1"]})
    rnd = []
    for k in range(n_random):
        trng = random.Random(rng.getrandbits(64))
        # mixed-case second letters: byte order (`RB1` < `Ra0`) and case-insensitive order disagree for some pairs
        t = gen.gen_trait(trng, ("Ra", "RB", "Rb")[k % 3] + str(k), f"r{k}", max_methods=6)
        nt = any(a.wrapped for m in t.methods for a in m.args) or any(m.ret.wrapped for m in t.methods)
        rnd.append(t)
        defs.append({"id": f"r{k}", "kind": "trait", "src": emit.trait_def(t).replace("#[cglue_trait]\n", "", 1), "nontrivial": nt, "label": "random",
                     "extra": PRELUDE + "//@@" + dummy_impl(t, f"Dr{k}") + probes(f"r{k}", t), "trait": t.name, "exported": [m.name for m in t.exported()]})
    # groups over the random traits (the group expansion only needs the names)
    for k in range(n_groups):
        if len(rnd) < 4:
            break
        pick = rng.sample(range(len(rnd)), rng.randint(2, min(5, len(rnd))))
        nm = rng.randint(0, 2) if len(pick) > 2 else 1
        mand = [rnd[i].use() for i in pick[:nm]]
        opt = [rnd[i].use() for i in pick[nm:]]
        mand_txt = "{}" if not mand else (mand[0] if len(mand) == 1 else "{ " + ", ".join(mand) + " }")
        src = f"Gr{k}, {mand_txt}, {{ {', '.join(opt)} }}"
        mods = [f"r{i}" for i in pick]
        defs.append({"id": f"g{k}", "kind": "group", "src": src, "nontrivial": len(pick) >= 2, "label": "group", "uses": mods,
                     "group": f"Gr{k}", "mand": [rnd[i].name for i in pick[:nm]], "opt": [rnd[i].name for i in pick[nm:]],
                     "extra": PRELUDE + "".join(f"use super::{m}::*;\n" for m in mods) + "//@@" + f"""
extern "C" {{
    pub fn probe_g{k}_box(o: &Gr{k}Box<'static>);
    pub fn probe_g{k}_arcbox(o: &Gr{k}ArcBox<'static>);
    pub fn probe_g{k}_ref(o: &Gr{k}Ref<'static>);
}}
"""})
    # groups that mix in built-in external traits (the generator keeps those in a HashMap)
    exts = ["Clone", "::ext::core::fmt::Debug", "::ext::core::fmt::Display", "::ext::core::convert::AsRef<u64>"]
    for k in range(max(2, n_groups // 3)):
        if len(rnd) < 2:
            break
        pick = rng.sample(range(len(rnd)), 2)
        e = rng.sample(exts, rng.randint(2, 4))
        src = f"Ge{k}, {rnd[pick[0]].use()}, {{ {', '.join(e + [rnd[pick[1]].use()])} }}"
        defs.append({"id": f"x{k}", "kind": "group", "src": src, "nontrivial": True, "label": "group-with-ext-traits", "uses": [f"r{i}" for i in pick], "lint": False, "extra": "//@@"})
    return defs


LINT_CARGO = """[package]
name = "c03lint"
version = "0.1.0"
edition = "2021"

[lib]
path = "src/lib.rs"

[dependencies]
cglue = {{ path = "{repo}/cglue", features = ["task", "futures"] }}
pbsupport = {{ path = "{root}/harness/pbsupport" }}

[workspace]

[profile.dev]
debug = 0
incremental = false
"""

RT_PROBE = """#![allow(unused, dead_code)]
use cglue::prelude::v1::*;
use cglue::repr_cstring::{ReprCStr, ReprCString};
use cglue::forward::Fwd;
use cglue::trait_group::c_void;
use pbsupport::Pod1;

// every C-compatible wrapper type shipped by the runtime crate, instantiated at several payloads
extern "C" {
    pub fn rt_box(a: &CBox<'static, u64>, b: &CBox<'static, Pod1>, c: &CBox<'static, c_void>);
    pub fn rt_slicebox(a: &CSliceBox<'static, u32>, b: &CSliceBox<'static, c_void>);
    pub fn rt_arc(a: &CArc<u64>, b: &CArcSome<u8>, c: &CArc<c_void>, d: &CArcSome<c_void>);
    pub fn rt_slices(a: &CSliceRef<'static, u16>, b: &CSliceMut<'static, Pod1>, c: &CSliceRef<'static, u8>);
    pub fn rt_vec(a: &CVec<u64>, b: &CVec<Pod1>, c: &CVec<u8>);
    pub fn rt_option(a: &COption<u32>, b: &COption<Pod1>, c: &COption<u8>);
    pub fn rt_result(a: &CResult<u8, i32>, b: &CResult<Pod1, u64>);
    pub fn rt_callback(a: &OpaqueCallback<'static, u32>, b: &OpaqueCallback<'static, Pod1>, c: &Callback<'static, u64, u8>);
    pub fn rt_iter(a: &CIterator<'static, u8>, b: &CIterator<'static, Pod1>);
    pub fn rt_tuples(a: &CTup1<u8>, b: &CTup2<u8, u64>, c: &CTup3<u8, u16, u32>, d: &CTup4<u8, u16, u32, u64>);
    pub fn rt_strings(a: &ReprCString, b: &ReprCStr<'static>);
    pub fn rt_fwd(a: &Fwd<&'static mut c_void>, b: &Fwd<CBox<'static, c_void>>);
    pub fn rt_waker(a: &cglue::task::CRefWaker<'static>);
    pub fn rt_container(a: &cglue::trait_group::CGlueObjContainer<CBox<'static, c_void>, CArc<c_void>, cglue::trait_group::NoContext>);
    // objects of the built-in external traits (their vtables are generated inside the runtime crate)
    pub fn rt_ext_clone(a: &cglue::ext::CloneBox<'static>, b: &cglue::ext::CloneArcBox<'static>);
    pub fn rt_ext_fmt(a: &cglue::ext::core::fmt::DebugBox<'static>, b: &cglue::ext::core::fmt::DisplayBox<'static>);
    pub fn rt_ext_asref(a: &cglue::ext::core::convert::AsRefBox<'static, u64>);
    pub fn rt_ext_future(a: &cglue::ext::core::future::FutureBox<'static, u64>, b: &cglue::ext::core::future::FutureArcBox<'static, Pod1>);
    pub fn rt_ext_stream(a: &cglue::ext::futures::stream::StreamBox<'static, u32>, b: &cglue::ext::futures::sink::SinkBox<'static, u32, u8>);
}
"""


def write_lint_crate(d, ids, group_ids):
    """lib.rs of the lint crate; module files are written by `expander emit`"""
    import os
    from common import ROOT, REPO
    from batch import write_if_changed
    os.makedirs(os.path.join(d, "src"), exist_ok=True)
    write_if_changed(os.path.join(d, "Cargo.toml"), LINT_CARGO.format(repo=REPO, root=ROOT))
    lock = os.path.join(d, "Cargo.lock")
    # (cargo prunes the lock to what the crate needs; when the crate's features grow, start again
    # from the harness lock, which pins every crate of the offline cache that is used anywhere)
    if not os.path.exists(lock) or 'name = "futures"' not in open(lock).read():
        open(lock, "w").write(open(os.path.join(ROOT, "harness", "Cargo.lock")).read())
    lib = ["// the property's own yardstick: the compiler's FFI-safety lints, denied, on expansions that are",
           "// now ordinary local source (so the suppression for external-macro spans does not apply)",
           "#![deny(improper_ctypes, improper_ctypes_definitions)]",
           "#![allow(unused, dead_code, non_snake_case, non_camel_case_types, mismatched_lifetime_syntaxes)]",
           "pub use cglue::*;",
           "pub mod rt_types;"]
    for i in ids:
        lib.append(f"pub mod {i};")
    write_if_changed(os.path.join(d, "src", "lib.rs"), "\n".join(lib) + "\n")
    write_if_changed(os.path.join(d, "src", "rt_types.rs"), RT_PROBE)
