"""Grammar-based generator of cglue trait definitions, stateful implementors and differential
interpreters (the `progbatch` engine, DESIGN.md section 4 "grammar G").

Everything is a pure function of the `random.Random` instance passed in.
"""
import random

SCALARS = ["u8", "u16", "u32", "u64", "usize", "i8", "i16", "i32", "i64", "isize", "bool", "f32", "f64", "char"]
INTS = ["u8", "u16", "u32", "u64", "usize", "i8", "i16", "i32", "i64", "isize"]
PODS = ["Pod1", "Pod2"]
VALS = SCALARS + PODS
# element types for slices (Unit0 = zero-sized)
ELEMS = ["u8", "u16", "u32", "u64", "i64", "Pod1", "Pod2", "Unit0", "f64"]
# T for Option<T> that cannot use the null-pointer optimisation
OPT_INNER = ["u8", "u32", "u64", "usize", "i16", "bool", "f64", "Pod1", "char", "*const u8", "*mut u32"]
# When set, only leaf types that rustc's improper_ctypes lint accepts are generated (`char` is
# not C-representable by the compiler's own rules), as C03's precondition demands.
FFI_STRICT = False
# While the trait *definition* is rendered, shapes marked generic print the trait's type
# parameter `T` instead of the concrete type it is instantiated with.
RENDER_GENERIC = False


def _g(obj, t):
    return "T" if (RENDER_GENERIC and getattr(obj, "generic", False)) else t


def _vals():
    return [v for v in VALS if not (FFI_STRICT and v == "char")]


def _opt_inner():
    return [v for v in OPT_INNER if not (FFI_STRICT and v == "char")]


INTO_PAIRS = [("u64", "u32"), ("u64", "u8"), ("u32", "u16"), ("i64", "i32"), ("f64", "f32"), ("usize", "u8"), ("u64", "u64")]


# ---------------------------------------------------------------------------------------------
# argument shapes

class Arg:
    reflike = False
    wrapped = False  # needs conversion at the boundary (for the C02 non-triviality rule)

    def __init__(self, i):
        self.i = i
        self.n = f"a{i}"

    def ty(self, lt):
        raise NotImplementedError

    def setup(self):  # driver: create storage for both sides from `g`
        raise NotImplementedError

    def pass_(self, side):
        raise NotImplementedError

    def impl_digest(self):  # impl: fold into `hh`, record addresses (before enter)
        raise NotImplementedError

    def impl_saw(self):  # impl: (addr, len) records, executed after enter
        return ""

    def impl_post(self):  # impl: effects after enter (uses `h`, `this`); may add to `post`
        return ""

    def expect_ptrs(self):  # driver: list of "(addr, len)" expressions expected on the wrapped side
        return []

    def after(self):  # driver: checks after both calls
        return ""

    def nondefault(self):
        return "false"

    def desc(self):
        return self.ty("")


class AVal(Arg):
    def __init__(self, i, t):
        super().__init__(i)
        self.t = t

    def ty(self, lt):
        return _g(self, self.t)

    def setup(self):
        return f"let {self.n}: {self.t} = Val::gen(&mut g);"

    def pass_(self, side):
        return f"{self.n}.clone()"

    def impl_digest(self):
        return f"{self.n}.dig(&mut hh);"


class ARef(Arg):
    reflike = True

    def __init__(self, i, t):
        super().__init__(i)
        self.t = t

    def ty(self, lt):
        return f"&{lt}{_g(self, self.t)}"

    def setup(self):
        return f"let {self.n}w: {self.t} = Val::gen(&mut g); let {self.n}r = {self.n}w.clone();"

    def pass_(self, side):
        return f"&{self.n}{side}"

    def impl_digest(self):
        return f"{self.n}.dig(&mut hh);"

    def impl_saw(self):
        return f"this.core.saw({self.n} as *const {self.t} as usize, 1);"

    def expect_ptrs(self):
        return [f"(&{self.n}w as *const {self.t} as usize, 1usize)"]


class AMutRef(Arg):
    reflike = True
    wrapped = True

    def __init__(self, i, t):
        super().__init__(i)
        self.t = t

    def ty(self, lt):
        return f"&{lt}mut {self.t}"

    def setup(self):
        return f"let mut {self.n}w: {self.t} = Val::gen(&mut g); let mut {self.n}r = {self.n}w.clone(); let {self.n}o = {self.n}w.clone();"

    def pass_(self, side):
        return f"&mut {self.n}{side}"

    def impl_digest(self):
        return f"{self.n}.dig(&mut hh);"

    def impl_saw(self):
        return f"this.core.saw({self.n} as *const {self.t} as usize, 1);"

    def impl_post(self):
        return f"*{self.n} = gen::<{self.t}>(h ^ {self.i + 11});"

    def expect_ptrs(self):
        return [f"(&{self.n}w as *const {self.t} as usize, 1usize)"]

    def after(self):
        return (f"let want: {self.t} = gen::<{self.t}>(sr.last_h() ^ {self.i + 11});"
                f" if !same(&{self.n}w, &want) || !same(&{self.n}r, &want) {{ return Err(Fail::new(\"C02:mut-write\", format!(\"method {{}}: write through &mut argument {self.i} not visible to the caller: wrapped side {{:?}}, direct side {{:?}}, callee wrote {{:?}} (before: {{:?}})\", mname, {self.n}w, {self.n}r, want, {self.n}o))); }}")

    def nondefault(self):
        return "true"


class ASlice(Arg):
    reflike = True
    wrapped = True

    def __init__(self, i, t):
        super().__init__(i)
        self.t = t

    def ty(self, lt):
        return f"&{lt}[{_g(self, self.t)}]"

    def setup(self):
        # a sub-slice of the buffer, sometimes an empty one in the middle (whose address still matters)
        return f"let {self.n}w: Vec<{self.t}> = Val::gen(&mut g); let {self.n}r = {self.n}w.clone(); let ({self.n}lo, {self.n}hi) = sub_bounds(&mut g, {self.n}w.len());"

    def pass_(self, side):
        return f"&{self.n}{side}[{self.n}lo..{self.n}hi]"

    def impl_digest(self):
        return f"dig_slice({self.n}, &mut hh);"

    def impl_saw(self):
        return f"this.core.saw({self.n}.as_ptr() as usize, {self.n}.len());"

    def expect_ptrs(self):
        return [f"({self.n}w[{self.n}lo..{self.n}hi].as_ptr() as usize, {self.n}hi - {self.n}lo)"]

    def nondefault(self):
        return f"!{self.n}w.is_empty()"


class AMutSlice(Arg):
    reflike = True
    wrapped = True

    def __init__(self, i, t):
        super().__init__(i)
        self.t = t

    def ty(self, lt):
        return f"&{lt}mut [{self.t}]"

    def setup(self):
        return f"let mut {self.n}w: Vec<{self.t}> = Val::gen(&mut g); let mut {self.n}r = {self.n}w.clone(); let ({self.n}lo, {self.n}hi) = sub_bounds(&mut g, {self.n}w.len());"

    def pass_(self, side):
        return f"&mut {self.n}{side}[{self.n}lo..{self.n}hi]"

    def impl_digest(self):
        return f"dig_slice({self.n}, &mut hh);"

    def impl_saw(self):
        return f"this.core.saw({self.n}.as_ptr() as usize, {self.n}.len());"

    def impl_post(self):
        return f"for (k, x) in {self.n}.iter_mut().enumerate() {{ if k % 2 == 0 {{ *x = gen::<{self.t}>(h ^ (k as u64 + {self.i * 100})); }} }}"

    def expect_ptrs(self):
        return [f"({self.n}w[{self.n}lo..{self.n}hi].as_ptr() as usize, {self.n}hi - {self.n}lo)"]

    def after(self):
        return (f"{{ let hb = sr.last_h(); for k in 0..({self.n}hi - {self.n}lo) {{ if k % 2 == 0 {{ let want = gen::<{self.t}>(hb ^ (k as u64 + {self.i * 100}));"
                f" if !same(&{self.n}w[{self.n}lo + k], &want) || !same(&{self.n}r[{self.n}lo + k], &want) {{ return Err(Fail::new(\"C02:mut-write\", format!(\"method {{}}: write through &mut [T] argument {self.i} at index {{}} not visible to the caller (len {{}})\", mname, k, {self.n}hi - {self.n}lo))); }} }} }}"
                f" if !same(&{self.n}w, &{self.n}r) {{ return Err(Fail::new(\"C02:mut-write\", format!(\"method {{}}: &mut [T] argument {self.i} differs between wrapped and direct call after the call\", mname))); }} }}")

    def nondefault(self):
        return f"!{self.n}w.is_empty()"


class AStr(Arg):
    reflike = True
    wrapped = True

    def ty(self, lt):
        return f"&{lt}str"

    def setup(self):
        return f"let {self.n}w: String = Val::gen(&mut g); let {self.n}r = {self.n}w.clone();"

    def pass_(self, side):
        return f"&{self.n}{side}[..]"

    def impl_digest(self):
        return f"hh.str({self.n});"

    def impl_saw(self):
        return f"this.core.saw({self.n}.as_ptr() as usize, {self.n}.len());"

    def expect_ptrs(self):
        return [f"({self.n}w.as_ptr() as usize, {self.n}w.len())"]

    def nondefault(self):
        return f"!{self.n}w.is_ascii()"


class AOptRef(Arg):
    reflike = True

    def __init__(self, i, t):
        super().__init__(i)
        self.t = t

    path = ""   # how the user spells the type: bare, or through its module path

    def ty(self, lt):
        return f"{self.path}Option<&{lt}{self.t}>"

    def setup(self):
        return f"let {self.n}w: Option<{self.t}> = Val::gen(&mut g); let {self.n}r = {self.n}w.clone();"

    def pass_(self, side):
        return f"{self.n}{side}.as_ref()"

    def impl_digest(self):
        return f"{self.n}.cloned().dig(&mut hh);"

    def impl_saw(self):
        return f"this.core.saw({self.n}.map(|p| p as *const {self.t} as usize).unwrap_or(0), {self.n}.is_some() as usize);"

    def expect_ptrs(self):
        return [f"({self.n}w.as_ref().map(|p| p as *const {self.t} as usize).unwrap_or(0), {self.n}w.is_some() as usize)"]

    def nondefault(self):
        return f"{self.n}w.is_some()"


class AOpt(Arg):
    wrapped = True

    def __init__(self, i, t):
        super().__init__(i)
        self.t = t

    path = ""

    def ty(self, lt):
        return f"{self.path}Option<{self.t}>"

    def setup(self):
        return f"let {self.n}: Option<{self.t}> = Val::gen(&mut g);"

    def pass_(self, side):
        return f"{self.n}.clone()"

    def impl_digest(self):
        return f"{self.n}.dig(&mut hh);"

    def nondefault(self):
        return f"{self.n}.is_some()"


class ARes(Arg):
    wrapped = True

    def __init__(self, i, a, b):
        super().__init__(i)
        self.a, self.b = a, b

    path = ""

    def ty(self, lt):
        return f"{self.path}Result<{self.a}, {self.b}>"

    def setup(self):
        return f"let {self.n}: Result<{self.a}, {self.b}> = Val::gen(&mut g);"

    def pass_(self, side):
        return f"{self.n}.clone()"

    def impl_digest(self):
        return f"{self.n}.dig(&mut hh);"

    def nondefault(self):
        return f"{self.n}.is_err()"


class AInto(Arg):
    wrapped = True

    def __init__(self, i, to, frm):
        super().__init__(i)
        self.to, self.frm = to, frm

    def ty(self, lt):
        return f"impl Into<{self.to}>"

    def setup(self):
        return f"let {self.n}: {self.frm} = Val::gen(&mut g);"

    def pass_(self, side):
        return f"{self.n}.clone()"

    def impl_digest(self):
        return f"let {self.n}: {self.to} = {self.n}.into(); {self.n}.dig(&mut hh);"

    def nondefault(self):
        return f"!{self.n}.is_default_like()"

    def desc(self):
        return f"impl Into<{self.to}> (given {self.frm})"


class ACallback(Arg):
    reflike = True
    wrapped = True

    def __init__(self, i, t, closure):
        super().__init__(i)
        self.t, self.closure = t, closure

    def ty(self, lt):
        return f"OpaqueCallback<{lt}{self.t}>" if lt else f"OpaqueCallback<{self.t}>"

    def setup(self):
        s = f"let mut {self.n}w: Vec<{self.t}> = Vec::new(); let mut {self.n}r: Vec<{self.t}> = Vec::new(); let {self.n}stop = g.below(6) as usize;"
        if self.closure:
            s += (f" let mut {self.n}cw = |x: {self.t}| {{ {self.n}w.push(x); {self.n}w.len() != {self.n}stop }};"
                  f" let mut {self.n}cr = |x: {self.t}| {{ {self.n}r.push(x); {self.n}r.len() != {self.n}stop }};")
        return s

    def pass_(self, side):
        if self.closure:
            return f"(&mut {self.n}c{side}).into()"
        return f"(&mut {self.n}{side}).into()"

    def impl_digest(self):
        return ""

    def impl_post(self):
        return (f"{{ let items: Vec<{self.t}> = gen(h ^ {self.i + 31}); let n = items.feed_into({self.n}); post.u64(n as u64); }}")

    def after(self):
        return (f"if !same(&{self.n}w, &{self.n}r) {{ return Err(Fail::new(\"C02:callback-items\", format!(\"method {{}}: callback argument {self.i}: sink behind the opaque object saw {{:?}}, direct sink saw {{:?}}\", mname, {self.n}w, {self.n}r))); }}")

    def nondefault(self):
        return f"!{self.n}r.is_empty()"


class AIter(Arg):
    reflike = True
    wrapped = True

    def __init__(self, i, t):
        super().__init__(i)
        self.t = t

    def ty(self, lt):
        return f"CIterator<{lt}{self.t}>" if lt else f"CIterator<{self.t}>"

    def setup(self):
        # the caller's iterator is NOT fused: it answers None now and then and goes on afterwards
        return (f"let {self.n}v: Vec<{self.t}> = Val::gen(&mut g); let {self.n}gap = g.below(4) as usize; let mut {self.n}w = Gappy::new({self.n}v.clone(), {self.n}gap); let mut {self.n}r = Gappy::new({self.n}v.clone(), {self.n}gap);")

    def pass_(self, side):
        return f"(&mut {self.n}{side}).into()"

    def impl_digest(self):
        return ""

    def impl_post(self):
        # the callee keeps polling after a None (the iterator is the caller's: what it answers next is its business)
        return (f"{{ let take = (h % 7) as usize; let mut it = {self.n}; for _ in 0..take {{ match it.next() {{ Some(x) => {{ post.u64(1); x.dig(&mut post); }} None => {{ post.u64(0); }} }} }} }}")

    def after(self):
        return (f"{{ let restw: Vec<{self.t}> = {self.n}w.rest(); let restr: Vec<{self.t}> = {self.n}r.rest(); if !same(&restw, &restr) {{ return Err(Fail::new(\"C02:iterator-items\", format!(\"method {{}}: iterator argument {self.i}: source left with {{:?}} behind the opaque object, {{:?}} after the direct call\", mname, restw, restr))); }} }}")

    def nondefault(self):
        return f"!{self.n}v.is_empty()"


class ACSlice(Arg):
    """hand-written CSliceRef argument: passes through unchanged"""
    reflike = True

    def __init__(self, i, t):
        super().__init__(i)
        self.t = t

    def ty(self, lt):
        return f"CSliceRef<{lt}{self.t}>" if lt else f"CSliceRef<{self.t}>"

    def setup(self):
        return f"let {self.n}w: Vec<{self.t}> = Val::gen(&mut g); let {self.n}r = {self.n}w.clone();"

    def pass_(self, side):
        return f"CSliceRef::from(&{self.n}{side}[..])"

    def impl_digest(self):
        return f"dig_slice({self.n}.as_slice(), &mut hh);"

    def impl_saw(self):
        return f"this.core.saw({self.n}.as_ptr() as usize, {self.n}.len());"

    def expect_ptrs(self):
        return [f"({self.n}w.as_ptr() as usize, {self.n}w.len())"]

    def nondefault(self):
        return f"!{self.n}w.is_empty()"


class ARawPtr(Arg):
    def __init__(self, i, t):
        super().__init__(i)
        self.t = t

    def ty(self, lt):
        return f"*const {self.t}"

    def setup(self):
        return f"let {self.n}w: {self.t} = Val::gen(&mut g); let {self.n}r = {self.n}w.clone();"

    def pass_(self, side):
        return f"&{self.n}{side} as *const {self.t}"

    def impl_digest(self):
        return f"unsafe {{ (*{self.n}).dig(&mut hh); }}"

    def impl_saw(self):
        return f"this.core.saw({self.n} as usize, 1);"

    def expect_ptrs(self):
        return [f"(&{self.n}w as *const {self.t} as usize, 1usize)"]


def gen_arg(rng, i):
    k = rng.random()
    if k < 0.22:
        return AVal(i, rng.choice(_vals()))
    if k < 0.30:
        return ARef(i, rng.choice(_vals()))
    if k < 0.38:
        return AMutRef(i, rng.choice(["u8", "u32", "u64", "i16", "Pod1", "f64", "bool"]))
    if k < 0.50:
        return ASlice(i, rng.choice(ELEMS))
    if k < 0.58:
        return AMutSlice(i, rng.choice(["u8", "u32", "u64", "Pod1", "i64"]))
    if k < 0.67:
        return AStr(i)
    if k < 0.72:
        return AOptRef(i, rng.choice(["u8", "u64", "Pod1", "usize"]))
    if k < 0.80:
        return AOpt(i, rng.choice(_opt_inner()))
    if k < 0.85:
        return ARes(i, rng.choice(["u8", "u64", "Pod1", "i32"]), rng.choice(["u8", "i32", "u64", "bool"]))
    if k < 0.90:
        return AInto(i, *rng.choice(INTO_PAIRS))
    if k < 0.94:
        return ACallback(i, rng.choice(["u8", "u32", "u64", "Pod1"]), rng.random() < 0.5)
    if k < 0.97:
        return AIter(i, rng.choice(["u8", "u16", "u64", "Pod1"]))
    if k < 0.985:
        return ACSlice(i, rng.choice(["u8", "u64"]))
    return ARawPtr(i, rng.choice(["u32", "u64", "Pod1"]))


# ---------------------------------------------------------------------------------------------
# return shapes

class Ret:
    borrowed = False      # borrows from self -> explicit lifetime when other args are ref-like
    needs_mut = False     # requires a mutable receiver
    wrapped = False
    assoc = None          # (assoc type name, attribute, bound) when it uses an associated type
    int_result = None     # None = not a Result; True = must be int_result; False = must be no_int_result
    consuming_ok = True

    def ty(self, lt):
        raise NotImplementedError

    def impl_ty(self, lt):
        return self.ty(lt)

    def impl_expr(self):  # expression computing the return value from `h`, `this`
        raise NotImplementedError

    def compare(self):  # driver: compare rw and rr; must produce Err(Fail) on mismatch
        return "if !same(&rw, &rr) { return Err(Fail::new(\"C02:ret-value\", format!(\"method {}: returned {:?} through the opaque object, {:?} directly\", mname, rw, rr))); }"

    def nondefault(self):
        return "false"

    def transfers(self):
        return False


class RUnit(Ret):
    def ty(self, lt):
        return ""

    def impl_expr(self):
        return "let _ = h;"

    def compare(self):
        return "let _ = (rw, rr);"


class RVal(Ret):
    def __init__(self, t):
        self.t = t

    def ty(self, lt):
        return f" -> {_g(self, self.t)}"

    def impl_expr(self):
        return f"gen::<{self.t}>(h)"


class RBorrow(Ret):
    borrowed = True
    wrapped = True

    def __init__(self, kind):
        self.kind = kind  # str, bytes, words, pods, one, pod

    T = {"str": "str", "bytes": "[u8]", "words": "[u64]", "pods": "[Pod1]", "one": "u64", "pod": "Pod1"}

    def ty(self, lt):
        return f" -> &{lt}{self.T[self.kind]}"

    def impl_expr(self):
        return f"this.core.lend_{self.kind}(h)"

    def compare(self):
        if self.kind in ("one", "pod"):
            addr = "(rw as *const _ as usize, 1usize)"
            eq = "same(rw, rr)"
        else:
            addr = "(rw.as_ptr() as usize, rw.len())"
            eq = "rw == rr"
        return (f"if !({eq}) {{ return Err(Fail::new(\"C02:ret-value\", format!(\"method {{}}: borrowed return differs: {{:?}} vs {{:?}}\", mname, rw, rr))); }}"
                f" if {addr} != sw.lent() {{ return Err(Fail::new(\"C02:ret-address\", format!(\"method {{}}: borrowed return arrives at {{:?}}, the implementor lent {{:?}}\", mname, {addr}, sw.lent()))); }}")

    def nondefault(self):
        return "true" if self.kind in ("one", "pod") else "!rr.is_empty()"


class RStatic(Ret):
    """a reference that is not borrowed from self: `&'static str` / `&'static [T]` - admissible for
    every receiver, by-value ones included"""
    wrapped = True
    static_return = True

    def __init__(self, kind):
        self.kind = kind  # str, bytes, words

    T = {"str": "str", "bytes": "[u8]", "words": "[u64]"}

    def ty(self, lt):
        return f" -> &'static {self.T[self.kind]}"

    def impl_expr(self):
        return f"static_{self.kind}(h)"

    def compare(self):
        return ("if !(rw == rr) { return Err(Fail::new(\"C02:ret-value\", format!(\"method {}: returned static reference differs: {:?} vs {:?}\", mname, rw, rr))); }"
                " if (rw.as_ptr() as usize, rw.len()) != (rr.as_ptr() as usize, rr.len()) { return Err(Fail::new(\"C02:ret-address\", format!(\"method {}: returned static reference arrives at {:?}, the direct call gives {:?}\", mname, (rw.as_ptr() as usize, rw.len()), (rr.as_ptr() as usize, rr.len())))); }")

    def nondefault(self):
        return "!rr.is_empty()"


class RMutBorrow(Ret):
    borrowed = True
    needs_mut = True
    wrapped = True

    def __init__(self, kind):
        self.kind = kind  # mwords, mone

    def ty(self, lt):
        return f" -> &{lt}mut " + ("[u32]" if self.kind == "mwords" else "u64")

    def impl_expr(self):
        return f"this.core.lend_{self.kind}(h)"

    def compare(self):
        if self.kind == "mone":
            addr = "(rw as *const u64 as usize, 1usize)"
            eq = "*rw == *rr"
        else:
            addr = "(rw.as_ptr() as usize, rw.len())"
            eq = "rw == rr"
        return (f"if !({eq}) {{ return Err(Fail::new(\"C02:ret-value\", format!(\"method {{}}: mutably borrowed return differs\", mname))); }}"
                f" if {addr} != sw.lent() {{ return Err(Fail::new(\"C02:ret-address\", format!(\"method {{}}: mutably borrowed return arrives at {{:?}}, the implementor lent {{:?}}\", mname, {addr}, sw.lent()))); }}")

    def nondefault(self):
        return "true"


class ROptRef(Ret):
    borrowed = True

    path = ""

    def ty(self, lt):
        return f" -> {self.path}Option<&{lt}u64>"

    def impl_expr(self):
        return "this.core.lend_opt_one(h)"

    def compare(self):
        return ("if rw != rr { return Err(Fail::new(\"C02:ret-value\", format!(\"method {}: Option<&T> return differs: {:?} vs {:?}\", mname, rw, rr))); }"
                " if let Some(p) = rw { if (p as *const u64 as usize, 1usize) != sw.lent() { return Err(Fail::new(\"C02:ret-address\", format!(\"method {}: Option<&T> return points elsewhere\", mname))); } }")

    def nondefault(self):
        return "rr.is_some()"


class ROpt(Ret):
    wrapped = True

    def __init__(self, t):
        self.t = t

    path = ""

    def ty(self, lt):
        return f" -> {self.path}Option<{self.t}>"

    def impl_expr(self):
        return f"gen::<Option<{self.t}>>(h)"

    def nondefault(self):
        return "rr.is_some()"


class RRes(Ret):
    wrapped = True
    int_result = False

    def __init__(self, a, b):
        self.a, self.b = a, b

    path = ""

    def ty(self, lt):
        return f" -> {self.path}Result<{self.a}, {self.b}>"

    def impl_expr(self):
        return f"gen::<Result<{self.a}, {self.b}>>(h)"

    def nondefault(self):
        return "rr.is_err()"


class RIntRes(Ret):
    wrapped = True
    int_result = True
    path = ""

    def __init__(self, t, e, alias=False):
        self.t, self.e = t, e  # e in io, unit, UErr
        # spelled through a result alias named in a method-level #[int_result(Alias)]
        self.alias = {"io": "ResIo", "UErr": "ResU"}.get(e) if alias else None

    def ety(self):
        return {"io": "std::io::Error", "unit": "()", "UErr": "UErr"}[self.e]

    def ty(self, lt):
        if self.alias:
            return f" -> {self.alias}<{self.t}>"
        return f" -> {self.path}Result<{self.t}, {self.ety()}>"

    def impl_expr(self):
        if self.e == "io":
            return f"gen_io_result::<{self.t}>(&mut Gen::new(h))"
        return f"gen::<Result<{self.t}, {self.ety()}>>(h)"

    def compare(self):
        if self.e == "io":
            return "if !same_io_result(&rw, &rr) { return Err(Fail::new(\"C13:int-result\", format!(\"method {}: integer-coded result decodes to {:?}, direct call gave {:?}\", mname, rw, rr))); }"
        return "if !same(&rw, &rr) { return Err(Fail::new(\"C13:int-result\", format!(\"method {}: integer-coded result decodes to {:?}, direct call gave {:?}\", mname, rw, rr))); }"

    def nondefault(self):
        return "rr.is_err()"


class RChild(Ret):
    """wrapped associated type: owned / &  / &mut, object or group"""
    wrapped = True

    def __init__(self, mode, group, nobound=False):
        self.mode, self.group, self.nobound = mode, group, nobound
        # nobound: the associated type is declared without an explicit lifetime bound
        self.name = ("G" if group else "C") + {"owned": "o", "ref": "r", "mut": "m"}[mode] + ("u" if nobound else "")
        attr = "wrap_with_group" if group else "wrap_with_obj"
        if mode != "owned":
            attr += "_" + mode
        if mode == "ref":
            target = "LeafRoGroup" if group else "LeafRo"
            self.leaf_trait = "LeafRo"
        else:
            target = "LeafGroup" if group else "Leaf"
            self.leaf_trait = "Leaf"
        self.assoc = (self.name, f"#[{attr}({target})]", self.leaf_trait if nobound else f"{self.leaf_trait} + 'static")
        self.borrowed = mode != "owned"
        self.needs_mut = mode == "mut"

    def ty(self, lt):
        p = {"owned": "", "ref": f"&{lt}", "mut": f"&{lt}mut "}[self.mode]
        return f" -> {p}Self::{self.name}"

    def impl_expr(self):
        if self.mode == "owned":
            return "LeafImp::new(h)"
        if self.mode == "ref":
            # (methods lend different leaves, so that two children alive together can be told apart)
            return "&this." + getattr(self, "field", "ch_ref")
        return "&mut this.ch_mut"

    def compare(self):
        if self.mode == "owned":
            return ("let (mut rw, mut rr) = (rw, rr); let (dw, dr) = (probe_leaf(&mut rw, seed), probe_leaf(&mut rr, seed));"
                    " if dw != dr { return Err(Fail::new(\"C01:child\", format!(\"method {}: the wrapped returned object answers differently from the directly returned one\", mname))); }"
                    " live_children_check!();")
        if self.mode == "ref":
            return ("let (dw, dr) = (probe_leaf_ref(rw), probe_leaf_ref(rr));"
                    " if dw != dr { return Err(Fail::new(\"C01:child\", format!(\"method {}: the wrapped borrowed object answers differently from the directly borrowed one\", mname))); }")
        return ("let (dw, dr) = (probe_leaf(rw, seed), probe_leaf(rr, seed));"
                " if dw != dr { return Err(Fail::new(\"C01:child\", format!(\"method {}: the wrapped mutably borrowed object answers differently from the directly borrowed one\", mname))); }")

    def nondefault(self):
        return "true"

    def transfers(self):
        return True


class RSelf(Ret):
    """`-> Self`: the opaque object returns a new opaque object of its own type"""
    wrapped = True
    self_return = True

    def ty(self, lt):
        return " -> Self"

    def impl_expr(self):
        return "Self::new(Shared::new(h), h | 1)"

    def compare(self):
        return ("let (pw, pr) = (rw.PROBE(), rr.PROBE());"
                " if pw != pr { return Err(Fail::new(\"C01:self-return\", format!(\"method {}: the object returned as `Self` through the opaque object answers {:#x}, the directly returned one {:#x}\", mname, pw, pr))); }"
                " live_children_check!();")

    def nondefault(self):
        return "true"

    def transfers(self):
        return True


class RResChild(Ret):
    """Result<Self::Co, ()> with an integer code (as in the suite's ObjResultReturn), or - plain -
    Result<Self::Cp, i32> that crosses as CResult"""
    wrapped = True

    def __init__(self, plain=False, nobound=False):
        self.plain, self.nobound = plain, nobound
        self.int_result = not plain
        self.name = ("Cp" if plain else "Co") + ("u" if nobound else "")
        self.assoc = (self.name, "#[wrap_with_obj(Leaf)]", "Leaf" if nobound else "Leaf + 'static")

    def ty(self, lt):
        return f" -> Result<Self::{self.name}, {'i32' if self.plain else '()'}>"

    def impl_expr(self):
        if self.plain:
            return "if h % 3 == 0 { Err((h >> 3) as i32) } else { Ok(LeafImp::new(h)) }"
        return "if h % 3 == 0 { Err(()) } else { Ok(LeafImp::new(h)) }"

    def compare(self):
        key = "C02:ret-value" if self.plain else "C13:int-result"
        return ("match (rw, rr) { (Ok(mut a), Ok(mut b)) => { if probe_leaf(&mut a, seed) != probe_leaf(&mut b, seed) { return Err(Fail::new(\"C01:child\", format!(\"method {}: wrapped Ok(object) answers differently\", mname))); } }"
                " (Err(a), Err(b)) if a == b => {} (a, b) => { return Err(Fail::new(\"" + key + "\", format!(\"method {}: Result<object, E> arrives as {:?}, the direct call gave {:?}\", mname, a.as_ref().map(|_| ()), b.as_ref().map(|_| ())))); } }")

    def nondefault(self):
        return "true"

    def transfers(self):
        return True


def gen_ret(rng, recv_mut, consuming, allow_child=True):
    k = rng.random()
    if consuming:
        # nothing can be borrowed from a consumed self
        if k < 0.15:
            return RUnit()
        if k < 0.55:
            return RVal(rng.choice(_vals()))
        if k < 0.70:
            return ROpt(rng.choice(_opt_inner()))
        if k < 0.80:
            return RRes(rng.choice(["u8", "u64", "Pod1"]), rng.choice(["u8", "i32", "bool", "LErr"]))
        if k < 0.88:
            return RIntRes(rng.choice(["u64", "u8", "Pod1", "()", "()", "()"]), rng.choice(["io", "unit", "UErr"]), rng.random() < 0.3)
        if k < 0.92:
            return RStatic(rng.choice(["str", "bytes", "words"]))
        return RChild("owned", rng.random() < 0.4, rng.random() < 0.4) if allow_child else RVal("u64")
    if k < 0.10:
        return RUnit()
    if k < 0.30:
        return RVal(rng.choice(_vals()))
    if k < 0.45:
        return RBorrow(rng.choice(["str", "bytes", "words", "pods", "one", "pod"]))
    if k < 0.47:
        return RStatic(rng.choice(["str", "bytes", "words"]))
    if k < 0.53 and recv_mut:
        return RMutBorrow(rng.choice(["mwords", "mone"]))
    if k < 0.57:
        return ROptRef()
    if k < 0.66:
        return ROpt(rng.choice(_opt_inner()))
    if k < 0.74:
        return RRes(rng.choice(["u8", "u64", "Pod1", "i32"]), rng.choice(["u8", "i32", "u64", "bool", "LErr", "LErr"]))
    if k < 0.84:
        return RIntRes(rng.choice(["u64", "u8", "Pod1", "()", "()", "()", "i16"]), rng.choice(["io", "unit", "UErr"]), rng.random() < 0.3)
    if not allow_child:
        return RVal(rng.choice(_vals()))
    if k < 0.89:
        return RChild("owned", rng.random() < 0.4, rng.random() < 0.4)
    if k < 0.945:
        return RChild("ref", rng.random() < 0.4, rng.random() < 0.4)
    if k < 0.99 and recv_mut:
        return RChild("mut", rng.random() < 0.4, rng.random() < 0.4)
    return RResChild(plain=rng.random() < 0.5, nobound=rng.random() < 0.5)


# ---------------------------------------------------------------------------------------------
# methods and traits

RECVS = ["ref", "mut", "own", "pinref", "pinmut"]


class Method:
    def __init__(self, idx, name, recv, args, ret, extern_c=False, unsafe=False):
        self.idx, self.name, self.recv, self.args, self.ret = idx, name, recv, args, ret
        self.gid = idx  # id logged by the implementor (made batch-unique by gen_trait)
        self.extern_c, self.unsafe = extern_c, unsafe
        self.attrs = []
        self.default_body = False   # the trait provides a body
        self.overridden = True      # the implementor provides its own body
        self.where_sized = False    # `where Self: Sized` on the method

    def mutating(self):
        return self.recv in ("mut", "pinmut")

    def needs_lt(self):
        return self.ret.borrowed and any(a.reflike for a in self.args)

    def recv_txt(self, lt):
        return {"ref": f"&{lt}self", "mut": f"&{lt}mut self", "own": "self",
                "pinref": f"self: ::core::pin::Pin<&{lt}Self>", "pinmut": f"self: ::core::pin::Pin<&{lt}mut Self>"}[self.recv]

    def qual(self):
        q = ""
        if self.unsafe:
            q += "unsafe "
        if self.extern_c:
            q += 'extern "C" '
        return q

    def sig(self, impl=False):
        lt = "'a " if self.needs_lt() else ""
        gen = "<'a>" if self.needs_lt() else ""
        args = "".join(f", {a.n}: {a.ty('')}" for a in self.args)
        mutp = "mut " if (impl and self.recv == "own") else ""
        recv = self.recv_txt(lt)
        if impl and self.recv == "own":
            recv = "self"
        wh = " where Self: Sized" if self.where_sized else ""
        return f"{self.qual()}fn {self.name}{gen}({recv}{args}){self.ret.ty(lt)}{wh}"

    def default_expr(self):
        """body of the provided (default) method: a constant of the return type, independent of self"""
        uses = " ".join(f"let _ = &{a.n};" for a in self.args)
        if isinstance(self.ret, RUnit):
            return f"{{ {uses} }}"
        if isinstance(self.ret, RVal):
            return f"{{ {uses} pbsupport::gen::<{self.ret.t}>(0xDEFA) }}"
        if isinstance(self.ret, ROpt):
            return f"{{ {uses} pbsupport::gen::<Option<{self.ret.t}>>(0xDEFB) }}"
        if isinstance(self.ret, RRes):
            return f"{{ {uses} pbsupport::gen::<Result<{self.ret.a}, {self.ret.b}>>(0xDEFC) }}"
        raise ValueError("no default body for this return shape")

    def describe(self):
        extra = ""
        if self.default_body:
            extra = " [provided" + (", overridden" if self.overridden else ", not overridden") + (", where Self: Sized" if self.where_sized else "") + "]"
        return f"{self.qual()}fn {self.name}({self.recv}; {', '.join(a.desc() for a in self.args)}){self.ret.ty('')}{extra}"


class Trait:
    def __init__(self, name, methods, int_result):
        self.name, self.methods, self.int_result = name, methods, int_result
        self.generic = None     # concrete type the trait-level parameter T is instantiated with
        self.supers = ""        # e.g. ": Send + Sync"
        self.orig_n = None      # set on reduced copies (structural shrinking): the original method count
        self.orig_kinds = None  # ... and the original list of container kinds (case fields index into both)

    def without(self, drop):
        """a copy of this definition without the methods whose index is in `drop`; operation
        selectors and container-kind indices of recorded cases keep their meaning"""
        import copy
        t = copy.copy(self)
        t.orig_n = self.orig_n or len(self.methods)
        t.orig_kinds = self.orig_kinds or self.kinds()
        t.methods = [m for m in self.methods if m.idx not in drop]
        return t

    def use(self):
        """the trait as named in bounds and impls"""
        return f"{self.name}<{self.generic}>" if self.generic else self.name

    def vtbl(self):
        return f"{self.name}Vtbl<'_, _, {self.generic}>" if self.generic else f"{self.name}Vtbl<'_, _>"

    def exported(self):
        """methods that get a vtable slot"""
        return [m for m in self.methods if not getattr(m, "skip", False)]

    def has_rettmp(self):
        return any(getattr(m.ret, "borrowed", False) and getattr(m.ret, "wrapped", False) for m in self.methods)

    def has_own(self):
        # `-> Self` needs a container that can be built from an owned value, like by-value receivers
        return any(m.recv == "own" or getattr(m.ret, "self_return", False) for m in self.methods)

    def has_mut(self):
        return any(m.mutating() for m in self.methods)

    def assocs(self):
        seen = {}
        for m in self.methods:
            if m.ret.assoc:
                seen[m.ret.assoc[0]] = m.ret.assoc
        return list(seen.values())

    def kinds(self):
        """admissible container kinds (DESIGN.md section 2)"""
        if self.orig_kinds:
            return list(self.orig_kinds)
        k = ["box", "cbox", "box_arcctx", "box_cntctx"]
        if not self.has_own():
            k += ["mut", "mut_arcctx"]
            if not self.has_mut():
                k += ["ref", "ref_arcctx", "arcsome"]
        return k

    def describe(self):
        return {"trait": self.name + (f"<T = {self.generic}>" if self.generic else "") + self.supers, "int_result": self.int_result, "methods": [m.describe() for m in self.methods], "containers": self.kinds()}

    def features(self):
        """grammar features of this definition (for the coverage histogram in the evidence)"""
        f = set()
        if self.generic:
            f.add("trait-level-generic")
        if self.supers:
            f.add("supertrait-send-sync")
        if self.has_rettmp():
            f.add("borrowed-wrapped-return")
        if self.int_result:
            f.add("trait-level-int_result")
        for m in self.methods:
            f.add("recv:" + m.recv)
            if getattr(m.ret, "self_return", False):
                f.add("self-return")
            if getattr(m, "plain_after_int", False):
                f.add("plain-result-after-method-level-int_result")
            if getattr(m, "doc", None):
                f.add("doc-text-mentions-attribute-names")
            if isinstance(m.ret, RChild) and m.ret.mode == "ref" and m.recv == "ref":
                same = [x for x in self.methods if isinstance(x.ret, RChild) and x.ret.mode == "ref" and x.recv == "ref" and not getattr(x, "skip", False) and x.ret.group == m.ret.group]
                if len(same) >= 2 and same[0].ret.field != same[1].ret.field:
                    f.add("two-borrowed-children")
            if getattr(m.ret, "nobound", False):
                f.add("assoc-without-lifetime-bound" + ("-in-result" if isinstance(m.ret, RResChild) else ""))
            if getattr(m.ret, "static_return", False):
                f.add("static-ref-return" + ("-consuming" if m.recv == "own" else ""))
            if getattr(m, "skip", False):
                f.add("skip_func")
            if getattr(m, "vtbl_only", False):
                f.add("vtbl_only")
            if m.default_body:
                f.add("provided-overridden" if m.overridden else "provided-not-overridden")
                if m.where_sized:
                    f.add("provided-where-sized")
            if m.extern_c:
                f.add("extern-c-method")
            if getattr(m.ret, "alias", None):
                f.add("int_result-alias")
            if getattr(m.ret, "int_result", None) is True:
                f.add("int_result-return")
                if getattr(m.ret, "t", None) == "()":
                    f.add("int_result-unit-ok")
            if getattr(m.ret, "wrapped", False) and hasattr(m.ret, "assoc"):
                f.add("wrapped-assoc-return")
            for a in m.args:
                f.add("arg:" + type(a).__name__[1:].lower())
            f.add("ret:" + type(m.ret).__name__[1:].lower())
        return f


def gen_trait(rng, name, prefix, max_methods=5, allow_child=True, tindex=0):
    n = rng.randint(1, max_methods)
    int_result = rng.random() < 0.5
    generic = rng.choice(["u16", "i64", "Pod2", "u8"]) if rng.random() < 0.25 else None
    supers = rng.choice(["", "", "", ": Send", ": Send + Sync", ": Sync"])
    want_self = allow_child and rng.random() < 0.15
    used_t = False
    methods = []
    used_assoc = {}
    have_own = False
    n_ref_lenders = 0
    for j in range(n):
        r = rng.random()
        if r < 0.40:
            recv = "ref"
        elif r < 0.70:
            recv = "mut"
        elif r < 0.80 and not have_own:
            recv = "own"
        elif r < 0.90:
            recv = "pinref"
        else:
            recv = "pinmut"
        if recv == "own":
            have_own = True
        nargs = rng.choice([0, 1, 1, 2, 2, 3, 4])
        args = [gen_arg(rng, i) for i in range(nargs)]
        ret = gen_ret(rng, recv in ("mut", "pinmut"), recv == "own", allow_child)
        if generic:
            # use the type parameter in some positions
            if rng.random() < 0.6:
                k = rng.random()
                a = AVal(len(args), generic) if k < 0.4 else (ARef(len(args), generic) if k < 0.7 else ASlice(len(args), generic))
                a.generic = True
                if len(args) < 4:
                    args.append(a)
                    used_t = True
            if recv != "own" and rng.random() < 0.4 and isinstance(ret, (RUnit, RVal)):
                ret = RVal(generic)
                ret.generic = True
                used_t = True
        if want_self and recv in ("ref", "mut") and j == n - 1:
            ret = RSelf()
        if recv in ("pinref", "pinmut") and ret.assoc:
            ret = RVal("u64")  # wrapped associated returns are generated for plain receivers only
        if isinstance(ret, RChild) and ret.mode != "owned" and any(a.reflike for a in args):
            # a borrowed wrapped return next to another reference-like argument would need a
            # method-level lifetime, which the generator does not support for wrapped returns
            # (the expansion does not compile on the unchanged tree): keep by-value arguments only
            args = [a for a in args if not a.reflike]
            for i, a in enumerate(args):
                a.i, a.n = i, f"a{i}"
        # only one flavour per associated-type name
        if ret.assoc:
            prev = used_assoc.get(ret.assoc[0])
            if prev and prev != ret.assoc:
                ret = RVal("u32")
            else:
                used_assoc[ret.assoc[0]] = ret.assoc
        if isinstance(ret, RChild) and ret.mode == "ref":
            # successive lending methods lend different leaves
            ret.field = "ch_ref2" if n_ref_lenders % 2 else "ch_ref"
            n_ref_lenders += 1
        m = Method(j, f"{prefix}_{j}", recv, args, ret,
                   extern_c=rng.random() < 0.12, unsafe=rng.random() < 0.08)
        m.gid = tindex * 100 + j
        # a method the *user* declares extern "C" must have a C-safe signature to begin with
        # (otherwise rustc's lint fires on the user's own trait, not on generated code)
        plain_arg = lambda a: isinstance(a, (AVal, ARef, AMutRef, ARawPtr)) and getattr(a, "t", "") != "char"
        plain_ret = isinstance(ret, RUnit) or (isinstance(ret, RVal) and ret.t != "char") or (isinstance(ret, RBorrow) and ret.kind in ("one", "pod"))
        if m.extern_c and not (all(plain_arg(a) for a in m.args) and plain_ret and recv in ("ref", "mut")):
            m.extern_c = False  # (a by-value `self` of a Rust-layout implementor is not C-safe either)
        # provided methods (default bodies), optionally further bounded, optionally overridden
        if isinstance(ret, (RUnit, RVal, ROpt, RRes)) and not getattr(ret, "generic", False) and recv != "own" and not any(isinstance(a, (AInto, ACallback, AIter)) for a in args) and rng.random() < 0.22:
            m.default_body = True
            m.overridden = rng.random() < 0.75
            m.where_sized = rng.random() < 0.5
            # a provided method that is not exported at all (no vtable slot): only meaningful
            # when the implementor does not override it (both paths then run the trait's body)
            if not m.overridden:
                k = rng.random()
                if k < 0.35:
                    m.skip = True
                    m.attrs.append("#[skip_func]")
                elif k < 0.7:
                    # a slot for C callers only: the opaque object's own trait impl keeps the default body
                    m.vtbl_only = True
                    m.attrs.append("#[vtbl_only]")
        # int_result attribute logic
        if getattr(ret, "alias", None):
            # the method-level alias takes precedence over whatever the trait says
            m.attrs.append(f"#[int_result({ret.alias})]")
        elif ret.int_result is True and not int_result:
            m.attrs.append("#[int_result]")
        if ret.int_result is False and int_result:
            m.attrs.append("#[no_int_result]")
        methods.append(m)
    # a plain Result (with an error whose integer coding would be lossy) declared AFTER a method that
    # carries its own #[int_result]: method-level attributes must not leak to later methods
    if not int_result and any(getattr(m.ret, "int_result", None) is True for m in methods) and rng.random() < 0.6:
        j = len(methods)
        pm = Method(j, f"{prefix}_{j}", "ref", [AVal(0, "u32")], RRes("u64", "LErr"))
        pm.gid = tindex * 100 + j
        pm.plain_after_int = True
        methods.append(pm)
        # (every plain Result behind the first annotated method gets an error type that HAS an
        # integer coding: a leaked attribute then changes behaviour instead of failing to compile)
        seen = False
        for m in methods:
            if seen and isinstance(m.ret, RRes):
                m.ret.b = "LErr"
            if getattr(m.ret, "int_result", None) is True:
                seen = True
    # the user may spell Option / Result through their module paths
    for m in methods:
        for x in list(m.args) + [m.ret]:
            if isinstance(x, (AOpt, AOptRef, ROpt, ROptRef)) and rng.random() < 0.3:
                x.path = rng.choice(["core::option::", "::std::option::", "std::option::"])
            elif isinstance(x, (ARes, RRes, RIntRes)) and rng.random() < 0.3:
                x.path = rng.choice(["core::result::", "::std::result::", "std::result::"])
    # documentation and inert attributes whose TEXT mentions the generator's own attribute names:
    # what a method is must not depend on how it is described
    for m in methods:
        if rng.random() < 0.2:
            m.doc = rng.choice([
                "/// Unlike a `#[skip_func]` method this one has a vtable slot.",
                "/// Not `vtbl_only`: callable from both sides.",
                "/// See also: int_result, no_int_result, wrap_with_obj(Leaf), custom_impl.",
                "#[doc = \"skip_func vtbl_only no_int_result\"]",
                "#[deprecated(note = \"was skip_func before 0.2; prefer the vtbl_only variant\")]",
                "#[allow(deprecated, clippy::skip_func_like_name)]",
            ])
    t = Trait(name, methods, int_result)
    if supers and any(getattr(m.ret, "borrowed", False) and getattr(m.ret, "wrapped", False) for m in methods):
        # the wrapper keeps borrowed wrapped returns in a Cell inside the container, which is never
        # Sync, and the object (which holds a `&Vtbl<Container>` marker) is then neither Send nor
        # Sync: a trait with such a supertrait cannot be implemented by its opaque object
        # (rejected at compile time; part of the known C09 picture, not a runtime matter)
        supers = ""
    uses_t = lambda m: any(getattr(x, "generic", False) for x in list(m.args) + [m.ret])
    used_t = any(uses_t(m) for m in methods)
    if used_t and not any(uses_t(m) for m in methods if not getattr(m, "skip", False)):
        # the type parameter must occur in an exported method (the generated vtable is generic
        # over it; a parameter that only #[skip_func] methods use is rejected at compile time)
        for m in methods:
            if getattr(m, "skip", False) and uses_t(m):
                m.skip = False
                m.attrs = [a for a in m.attrs if a != "#[skip_func]"]
    t.generic, t.supers = (generic if used_t else None), supers
    if any(getattr(m.ret, "self_return", False) for m in methods):
        # a state probe so that returned objects can be compared
        pm = Method(len(methods), f"{prefix}_probe", "ref", [], RVal("u64"))
        pm.gid = tindex * 100 + len(methods)
        methods.append(pm)
        t.probe = pm.name
    return t
