"""Write a generated program batch as a cargo crate and describe it."""
import os, json, random, hashlib, shutil
import gen, emit
from common import ROOT, REPO, WORK

CARGO = """[package]
name = "{name}"
version = "0.1.0"
edition = "2021"

[dependencies]
cglue = {{ path = "{repo}/cglue" }}
pbsupport = {{ path = "{root}/harness/pbsupport" }}

[workspace]

[profile.dev]
opt-level = 0
debug = 0
incremental = false

[profile.release]
opt-level = 2
debug = 0
"""

MAIN = """#![allow(unused_imports, unused_macros)]
use pbsupport::verifkit::{{Args, Ctx, Tier}};
use pbsupport::{{case_strategy, to_info, Case}};
// cglue's expansion of borrowed wrapped returns names `crate::trait_group` (it assumes the glob
// import at the crate root that its documentation uses)
pub use cglue::*;

#[global_allocator]
static A: pbsupport::verifkit::alloc::Tracking = pbsupport::verifkit::alloc::Tracking;

{mods}

fn main() {{
    pbsupport::verifkit::quiet_panics();
    let args = Args::parse();
    let ctx = Ctx::new(args);
    let prop = ctx.args.prop.clone();
    let cases: u32 = ctx.args.extra.iter().position(|x| x == "--cases").and_then(|i| ctx.args.extra.get(i + 1)).and_then(|s| s.parse().ok()).unwrap_or(200);
    let only: Option<String> = ctx.args.extra.iter().position(|x| x == "--only").and_then(|i| ctx.args.extra.get(i + 1)).cloned();
{runs}
    let code = ctx.finish(pbsupport::rule_for(&prop), &["the generated implementor driven by direct trait calls is the reference", "grammar G of DESIGN.md section 4; definitions the current tree rejects at compile time are reported as compile_rejected, not as violations"], false);
    std::process::exit(code);
}}
"""

RUN = """    if only.as_deref().map(|o| o == "{mod}").unwrap_or(true) {{
        ctx.run("{mod}:{tname}", cases, case_strategy(24), |c: &Case| to_info(&prop, {mod}::run_case(&ctx, c.kind, &c.ops)));
    }}
"""


def write_if_changed(path, text):
    if os.path.exists(path) and open(path).read() == text:
        return False
    os.makedirs(os.path.dirname(path), exist_ok=True)
    open(path, "w").write(text)
    return True



# Grammar features that a plain draw of 20 traits leaves out of a large share of the batches
# (measured over 40 seeds: skip_func absent from 30, extern "C" methods from 27, vtbl_only from 21,
# result aliases from 16): every batch is completed so that each occurs at least once.
MUST_FEATURES = ["plain-result-after-method-level-int_result", "static-ref-return-consuming", "two-borrowed-children", "assoc-without-lifetime-bound-in-result", "skip_func", "extern-c-method", "vtbl_only", "int_result-alias", "self-return", "ret:reschild", "int_result-unit-ok"]


def trait_name(k):
    """every third trait is spelled with an upper-case second letter, so that byte order (the order
    the generator uses for a group's vtable fields) and case-insensitive order disagree for some
    pairs of mandatory traits (`TR4` < `Tr2` by bytes, `tr2` < `tr4` ignoring case)"""
    return ("TR" if k % 3 == 1 else "Tr") + str(k)


def batch_traits(rng, seed, n_traits):
    """the batch's trait definitions: n draws, then the last slots are redrawn (deterministically)
    until every feature of MUST_FEATURES occurs somewhere in the batch"""
    traits = []
    for k in range(n_traits):
        trng = random.Random(rng.getrandbits(64))
        traits.append(gen.gen_trait(trng, trait_name(k), f"t{k}", tindex=k))
    if n_traits < len(MUST_FEATURES) + 5:
        # (was `2 * len(MUST_FEATURES)`: once the list had grown to 11 entries the 20 traits of the
        # quick tier fell below it and nothing was forced there any more - found in round 11)
        return traits
    taken = set()
    for f in MUST_FEATURES:
        if any(f in t.features() for t in traits):
            continue
        # redraw a slot that is not the only carrier of another required feature
        def sole(k):
            return any(g in traits[k].features() and not any(g in t.features() for i, t in enumerate(traits) if i != k) for g in MUST_FEATURES)
        slot = next((k for k in range(n_traits - 1, -1, -1) if k not in taken and not sole(k)), None)
        if slot is None:
            break
        for attempt in range(5000):
            trng = random.Random((seed * 7919 + slot) * 10000 + attempt)
            t = gen.gen_trait(trng, trait_name(slot), f"t{slot}", tindex=slot)
            if f in t.features():
                traits[slot] = t
                taken.add(slot)
                break
    return traits


def make_single(seed, n_traits, name, module, drop=(), lite=False):
    """The crate of make_batch reduced to ONE trait module, optionally without some of its methods
    (structural shrinking of a failing program)."""
    rng = random.Random(seed * 1000003 + n_traits)
    trait = None
    for k, t in enumerate(batch_traits(rng, seed, n_traits)):
        if f"m{k}" == module:
            trait = t
    if trait is None:
        raise ValueError(f"no trait module {module} in batch ({seed}, {n_traits})")
    full = trait
    if drop:
        trait = trait.without(set(drop))
    d = os.path.join(WORK, name)
    shutil.rmtree(os.path.join(d, "src"), ignore_errors=True)
    os.makedirs(os.path.join(d, "src"), exist_ok=True)
    write_if_changed(os.path.join(d, "Cargo.toml"), CARGO.format(name=name.replace("-", "_"), repo=REPO, root=ROOT))
    lock = os.path.join(d, "Cargo.lock")
    if not os.path.exists(lock):
        open(lock, "w").write(open(os.path.join(ROOT, "harness", "Cargo.lock")).read())
    write_if_changed(os.path.join(d, "src", f"{module}.rs"), emit.module_src(trait, lite=lite))
    write_if_changed(os.path.join(d, "src", "main.rs"), MAIN.format(mods=f"mod {module};", runs=RUN.format(mod=module, tname=trait.name)))
    return d, full, trait


def make_batch(seed, n_traits, name, exclude=(), lite=()):
    """Deterministic in (seed, n_traits). `exclude`: module names dropped (compile-rejected);
    `lite`: trait modules emitted without the by-name vtable getters."""
    rng = random.Random(seed * 1000003 + n_traits)
    traits = [(f"m{k}", t) for k, t in enumerate(batch_traits(rng, seed, n_traits))]
    # groups over the batch's traits
    groups = []
    n_groups = max(2, n_traits // 5)
    for k in range(n_groups):
        grng = random.Random(rng.getrandbits(64))
        cand = [(m, t) for (m, t) in traits if m not in exclude]
        if len(cand) < 3:
            break
        members = grng.sample(cand, grng.randint(2, min(4, len(cand))))
        if k % 2 == 1:
            # every other group gets a member with real temporary-return storage (a borrowed
            # wrapped return), so that containers with non-empty ret_tmp fields occur in every batch
            rt = [(m, t) for (m, t) in cand if t.has_rettmp()]
            if rt and not any(t.has_rettmp() for (_, t) in members):
                pick = grng.choice(rt)
                members = [pick] + [x for x in members if x[0] != pick[0]][: max(1, len(members) - 1)]
        if any(t.has_rettmp() for (_, t) in members):
            # a member with a `: Send`/`: Sync` supertrait cannot share a group with borrowed
            # wrapped returns (the group's container then holds a Cell): rejected at compile time
            kept = [(m, t) for (m, t) in members if not t.supers]
            members = kept if len(kept) >= 2 else [(m, t) for (m, t) in members if not t.has_rettmp()]
            if len(members) < 2:
                continue
        n_mand = grng.randint(0, min(2, len(members) - 1))
        nopt = len(members) - n_mand
        enabled = grng.getrandbits(nopt) | (1 << grng.randrange(nopt))
        if grng.random() < 0.25:
            enabled = (1 << nopt) - 1
        # aliases that make the visible (alias) order differ from the order of the traits' own names
        aliases = {}
        for oi in range(nopt):
            if grng.random() < 0.45 or members[n_mand + oi][1].generic:
                tn = members[n_mand + oi][1].name
                aliases[oi] = (grng.choice(["Aa", "AB", "Zy", "ZZ", "Mm"]) + tn + "As")
        own_order = sorted(range(nopt), key=lambda i: members[n_mand + i][1].name)
        vis_order = sorted(range(nopt), key=lambda i: aliases.get(i, members[n_mand + i][1].name))
        if nopt >= 2 and own_order == vis_order and k % 2 == 0:
            # every other group with two or more optional members: make sure the alias order is
            # NOT the order of the traits' own names (first by own name gets the last alias)
            by_own = sorted(range(nopt), key=lambda i: members[n_mand + i][1].name)
            aliases[by_own[0]] = "Zz" + members[n_mand + by_own[0]][1].name + "As"
            aliases[by_own[-1]] = "Aa" + members[n_mand + by_own[-1]][1].name + "As"
        if nopt >= 2 and k % 2 == 1:
            # the other groups with two or more optional members get a pair of aliases whose byte
            # order (`AC..` < `Ab..`, the order of the vtable fields) is the reverse of their order
            # ignoring case
            aliases[0] = "Ab" + members[n_mand][1].name + "As"
            aliases[1] = "AC" + members[n_mand + 1][1].name + "As"
        groups.append((f"g{k}", emit.Group(f"Gp{k}", members, n_mand, enabled, aliases)))
        if nopt >= 2:
            # the same group again with single-trait requests only
            groups.append((f"h{k}", emit.Group(f"Gq{k}", members, n_mand, enabled, aliases)))
    d = os.path.join(WORK, name)
    os.makedirs(os.path.join(d, "src"), exist_ok=True)
    write_if_changed(os.path.join(d, "Cargo.toml"), CARGO.format(name=name.replace("-", "_"), repo=REPO, root=ROOT))
    lock = os.path.join(d, "Cargo.lock")
    if not os.path.exists(lock):
        src = os.path.join(ROOT, "harness", "Cargo.lock")
        open(lock, "w").write(open(src).read())
    mods, runs = [], []
    for (m, t) in traits:
        if m in exclude:
            continue
        write_if_changed(os.path.join(d, "src", f"{m}.rs"), emit.module_src(t, lite=m in lite))
        mods.append(f"mod {m};")
        runs.append(RUN.format(mod=m, tname=t.name))
    for (gm, g) in groups:
        if gm in exclude or any(m in exclude for (m, _) in g.members):
            continue
        write_if_changed(os.path.join(d, "src", f"{gm}.rs"), emit.group_src(g, lite=gm.startswith("h")))
        mods.append(f"mod {gm};")
        runs.append(RUN.format(mod=gm, tname=g.name))
    write_if_changed(os.path.join(d, "src", "main.rs"), MAIN.format(mods="\n".join(mods), runs="".join(runs)))
    desc = {m: t.describe() for (m, t) in traits}
    desc.update({gm: g.describe() for (gm, g) in groups})
    return d, traits, desc
