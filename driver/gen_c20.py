"""C20: pairs (definition, single-edit variant) compared with the runtime layout validation."""
import os, random, copy
from common import ROOT, REPO, WORK
from batch import write_if_changed

CARGO = """[package]
name = "c20pairs"
version = "0.1.0"
edition = "2021"

[dependencies]
cglue = {{ path = "{repo}/cglue", features = ["layout_checks"] }}
abi_stable = "0.10"
verifkit = {{ path = "{root}/harness/verifkit" }}
serde = {{ version = "1", features = ["derive"] }}
serde_json = "1"

[workspace]

[profile.dev]
opt-level = 0
debug = 0
incremental = false
"""

# StableAbi leaf types: (rust type in the trait, C-visible type after wrapping)
ARG_TYPES = [
    ("u8", "u8"), ("u16", "u16"), ("u32", "u32"), ("u64", "u64"), ("i32", "i32"), ("i64", "i64"), ("usize", "usize"), ("bool", "bool"),
    ("f64", "f64"), ("P1", "P1"), ("&u32", "&u32"), ("&mut u64", "&mut u64"), ("&[u8]", "CSliceRef<u8>"), ("&[u32]", "CSliceRef<u32>"),
    ("&mut [u8]", "CSliceMut<u8>"), ("&str", "CSliceRef<u8>"), ("Option<u32>", "COption<u32>"), ("Option<&u32>", "Option<&u32>"),
]
RET_TYPES = [
    ("", "()"), (" -> u8", "u8"), (" -> u32", "u32"), (" -> u64", "u64"), (" -> i64", "i64"), (" -> bool", "bool"), (" -> P1", "P1"),
    (" -> Option<u32>", "COption<u32>"), (" -> Result<u8, i32>", "CResult<u8,i32>"), (" -> Result<u32, ()>", "RESULT_U32_UNIT"), (" -> Result<(), ()>", "RESULT_UNIT_UNIT"),
]
RECVS = ["&self", "&mut self"]


class M:
    def __init__(self, name, recv, args, ret, int_result=False):
        self.name, self.recv, self.args, self.ret, self.int_result = name, recv, args, ret, int_result

    provided = None   # "vtbl_only" / "skip_func": a provided method carrying that attribute

    def src(self):
        args = "".join(f", a{i}: {t}" for i, (t, _) in enumerate(self.args))
        attr = "#[int_result] " if self.int_result else ""
        if self.provided:
            return f"    #[{self.provided}] {attr}fn {self.name}({self.recv}{args}){self.ret[0]} {{ unimplemented!() }}"
        return f"    {attr}fn {self.name}({self.recv}{args}){self.ret[0]};"

    def csig(self):
        ret = self.ret[1]
        extra = []
        if ret.startswith("RESULT_"):
            if self.int_result:
                if ret == "RESULT_U32_UNIT":
                    extra, ret = ["&mut MaybeUninit<u32>"], "i32"
                else:
                    ret = "i32"
            else:
                ret = "CResult<u32,()>" if ret == "RESULT_U32_UNIT" else "CResult<(),()>"
        return (self.name, self.recv, tuple(c for (_, c) in self.args) + tuple(extra), ret)


def gen_method(rng, name):
    nargs = rng.choice([0, 1, 1, 2, 3])
    args = [rng.choice(ARG_TYPES) for _ in range(nargs)]
    ret = rng.choice(RET_TYPES)
    ir = ret[1].startswith("RESULT_") and rng.random() < 0.5
    return M(name, rng.choice(RECVS), args, ret, ir)


def csigs(methods):
    """the C-visible interface: one entry per method with a vtable slot (a #[skip_func] method has none)"""
    return [m.csig() for m in methods if m.provided != "skip_func"]


def trait_src(name, methods):
    return f"#[cglue_trait]\npub trait {name} {{\n" + "\n".join(m.src() for m in methods) + "\n}\n"


def edit(rng, methods):
    """returns (kind, edited methods, expectation) with expectation in {'differs', 'same'}"""
    ms = copy.deepcopy(methods)
    kinds = ["add", "remove", "rename", "reorder", "arg-type", "arg-type-neutral", "ret-type", "receiver", "int-result", "arg-add", "arg-remove", "param-rename-only", "identical", "add-vtbl-only", "add-skip-func"]
    rng.shuffle(kinds)
    for k in kinds:
        if k == "identical":
            return k, ms, "same"
        if k in ("add-vtbl-only", "add-skip-func"):
            # a provided method: with #[vtbl_only] it still has a vtable slot (a C-visible change),
            # with #[skip_func] it has none (the C-visible interface stays what it was)
            m = gen_method(rng, "added_p")
            m.provided = "vtbl_only" if k == "add-vtbl-only" else "skip_func"
            ms.insert(rng.randint(0, len(ms)), m)
            return k, ms, ("differs" if k == "add-vtbl-only" else "same")
        if k == "add":
            ms.insert(rng.randint(0, len(ms)), gen_method(rng, "added_m"))
            return k, ms, "differs"
        if k == "remove" and len(ms) >= 2:
            ms.pop(rng.randrange(len(ms)))
            return k, ms, "differs"
        if k == "rename":
            ms[rng.randrange(len(ms))].name += "_x"
            return k, ms, "differs"
        if k == "reorder" and len(ms) >= 2:
            i = rng.randrange(len(ms) - 1)
            if ms[i].csig() != ms[i + 1].csig():
                ms[i], ms[i + 1] = ms[i + 1], ms[i]
                return k, ms, "differs"
        if k in ("arg-type", "arg-type-neutral"):
            cands = [(i, j) for i, m in enumerate(ms) for j in range(len(m.args))]
            if cands:
                i, j = rng.choice(cands)
                old = ms[i].args[j]
                if k == "arg-type":
                    new = rng.choice([t for t in ARG_TYPES if t[1] != old[1]])
                    ms[i].args[j] = new
                    return k, ms, "differs"
                same_c = [t for t in ARG_TYPES if t[1] == old[1] and t[0] != old[0]]
                if same_c:
                    ms[i].args[j] = rng.choice(same_c)  # e.g. &str <-> &[u8]: same C type
                    return k, ms, "neutral"
        if k == "ret-type":
            i = rng.randrange(len(ms))
            old = ms[i].csig()[3]
            new = rng.choice([t for t in RET_TYPES if not t[1].startswith("RESULT_") and t[1] != old])
            ms[i].ret, ms[i].int_result = new, False
            if ms[i].csig()[3] != old:
                return k, ms, "differs"
        if k == "receiver":
            i = rng.randrange(len(ms))
            ms[i].recv = "&mut self" if ms[i].recv == "&self" else "&self"
            return k, ms, "differs"
        if k == "int-result":
            cands = [i for i, m in enumerate(ms) if m.ret[1].startswith("RESULT_")]
            if cands:
                i = rng.choice(cands)
                ms[i].int_result = not ms[i].int_result
                return k, ms, "differs"
        if k == "arg-add":
            i = rng.randrange(len(ms))
            ms[i].args.append(rng.choice(ARG_TYPES))
            return k, ms, "differs"
        if k == "arg-remove":
            cands = [i for i, m in enumerate(ms) if m.args]
            if cands:
                i = rng.choice(cands)
                ms[i].args.pop()
                return k, ms, "differs"
        if k == "param-rename-only":
            return k, ms, "neutral"
        ms = copy.deepcopy(methods)
    return "identical", ms, "same"


HEADER = """#![allow(unused, non_snake_case, clippy::all)]
pub use cglue::*;
use cglue::prelude::v1::*;
use abi_stable::StableAbi;
use cglue::trait_group::{compare_layouts, VerifyLayout};
use verifkit::{Args, Ctx, Fail, Info, CaseResult};

#[repr(C)]
#[derive(Clone, Copy, StableAbi)]
pub struct P1 { pub a: u32, pub b: u8, pub c: u64 }

#[derive(serde::Serialize, serde::Deserialize, Debug, Clone)]
pub struct Pair { pub id: String, pub kind: String, pub expect: String, pub a: String, pub b: String }

fn verdict(v: &VerifyLayout) -> &'static str { match v { VerifyLayout::Valid => "Valid", VerifyLayout::Invalid => "Invalid", VerifyLayout::Unknown => "Unknown" } }
"""


def make(seed, n_pairs):
    rng = random.Random(seed * 31337 + 5)
    d = os.path.join(WORK, "c20")
    os.makedirs(os.path.join(d, "src"), exist_ok=True)
    write_if_changed(os.path.join(d, "Cargo.toml"), CARGO.format(repo=REPO, root=ROOT))
    lock = os.path.join(d, "Cargo.lock")
    if not os.path.exists(lock):
        open(lock, "w").write(open(os.path.join(ROOT, "harness", "Cargo.lock")).read())
    body = [HEADER]
    rows = []
    for k in range(n_pairs):
        n = rng.randint(1, 4)
        methods = [gen_method(rng, f"m{j}") for j in range(n)]
        if k % 5 == 3:
            # an unchanged slice/string use comes first, a LATER slice changes its element type
            # (the validator must not take the first instantiation of a generic C type for all)
            methods[0].args.insert(0, rng.choice([("&str", "CSliceRef<u8>"), ("&[u8]", "CSliceRef<u8>")]))
            methods.append(M(f"m{n}", "&self", [("&[u8]", "CSliceRef<u8>")], ("", "()")))
            edited = copy.deepcopy(methods)
            edited[-1].args[0] = rng.choice([("&[u32]", "CSliceRef<u32>"), ("&[P1]", "CSliceRef<P1>")])
            kind, expect = "slice-element-after-unchanged-slice", "differs"
        else:
            kind, edited, expect = edit(rng, methods)
        a_src, b_src = trait_src("T", methods), trait_src("T", edited)
        if kind == "param-rename-only":
            b_src = b_src.replace("a0:", "renamed0:")
        # is it really a C-visible difference? (belt and braces on the labels)
        sig_same = csigs(methods) == csigs(edited)
        assert sig_same == (expect in ("same", "neutral")), (kind, a_src, b_src)
        group = k % 3 == 0
        ga = gb = ""
        gkind = None
        if group:
            # groups over T plus two fixed helper traits; edit the group instead of the trait
            gkind = rng.choice(["group-same", "group-add-optional", "group-remove-optional", "group-declared-order", "group-mandatory-swap", "group-member-edited", "group-optional-member-edited", "group-optional-member-edited"])
            helper = "#[cglue_trait]\npub trait H1 { fn h1(&self) -> u32; }\n#[cglue_trait]\npub trait H2 { fn h2(&self, x: u64); }\n#[cglue_trait]\npub trait H3 { fn h3(&mut self) -> u8; }\n"
            ga = helper + ("cglue_trait_group!(G, H1, { T, H2 });\n" if gkind == "group-optional-member-edited" else "cglue_trait_group!(G, T, { H1, H2 });\n")
            gb = helper + {
                "group-same": "cglue_trait_group!(G, T, { H1, H2 });\n",
                "group-add-optional": "cglue_trait_group!(G, T, { H1, H2, H3 });\n",
                "group-remove-optional": "cglue_trait_group!(G, T, { H1 });\n",
                "group-declared-order": "cglue_trait_group!(G, T, { H2, H1 });\n",
                "group-mandatory-swap": "cglue_trait_group!(G, H1, { T, H2 });\n",
                "group-member-edited": "cglue_trait_group!(G, T, { H1, H2 });\n",
                "group-optional-member-edited": "cglue_trait_group!(G, H1, { T, H2 });\n",
            }[gkind]
            if gkind not in ("group-member-edited", "group-optional-member-edited"):
                b_src = a_src
                expect = "same" if gkind in ("group-same", "group-declared-order") else "differs"
                kind = gkind
            else:
                kind = ("group-optional-member-" if gkind == "group-optional-member-edited" else "group-member-") + kind
        outer = (not group) and k % 4 == 1
        if outer:
            # the edited trait is the interface of an object RETURNED by a method of the compared type
            how = rng.choice(["owned", "mut"])
            o_src = ("#[cglue_trait]\npub trait Outer {\n    #[wrap_with_obj(T)]\n    type R: T + 'static;\n    fn id(&self) -> u32;\n    fn get(&self) -> Self::R;\n}\n" if how == "owned" else
                     "#[cglue_trait]\npub trait Outer {\n    #[wrap_with_obj_mut(T)]\n    type R: T + 'static;\n    fn id(&self) -> u32;\n    fn get_mut(&mut self) -> &mut Self::R;\n}\n")
            ga = gb = o_src
            kind = f"returned-object({how})-" + kind
        body.append(f"pub mod a{k} {{ use super::*;\n{a_src}{ga}}}")
        body.append(f"pub mod b{k} {{ use super::*;\n{b_src}{gb}}}")
        ty = "GBox<'static>" if group else ("OuterBox<'static>" if outer else "TBox<'static>")
        ty2 = "GArcBox<'static>" if group else ("OuterArcBox<'static>" if outer else "TArcBox<'static>")
        rows.append((k, kind, expect, a_src + ga, b_src + gb, ty, ty2))
    body.append("fn pairs() -> Vec<(Pair, VerifyLayout, VerifyLayout, [VerifyLayout; 4], VerifyLayout, [VerifyLayout; 2])> { vec![")
    for (k, kind, expect, a, b, ty, ty2) in rows:
        esc = lambda s: s.replace("\\", "\\\\").replace('"', '\\"').replace("\n", "\\n")
        body.append(f"    (Pair {{ id: \"p{k}\".into(), kind: \"{kind}\".into(), expect: \"{expect}\".into(), a: \"{esc(a)}\".into(), b: \"{esc(b)}\".into() }},"
                    f" compare_layouts(Some(<a{k}::{ty} as StableAbi>::LAYOUT), Some(<b{k}::{ty} as StableAbi>::LAYOUT)),"
                    f" compare_layouts(Some(<a{k}::{ty2} as StableAbi>::LAYOUT), Some(<b{k}::{ty2} as StableAbi>::LAYOUT)),"
                    f" [compare_layouts(Some(<a{k}::{ty} as StableAbi>::LAYOUT), None), compare_layouts(None, Some(<b{k}::{ty} as StableAbi>::LAYOUT)), compare_layouts(None, None), VerifyLayout::check::<a{k}::{ty}>(None)],"
                    f" VerifyLayout::check::<a{k}::{ty}>(Some(<a{k}::{ty} as StableAbi>::LAYOUT)),"
                    # the loader's call: its own (expected) type against the description found in the
                    # plugin - issued right after a successful check of that very description
                    f" [VerifyLayout::check::<b{k}::{ty}>(Some(<a{k}::{ty} as StableAbi>::LAYOUT)), VerifyLayout::check::<a{k}::{ty2}>(Some(<b{k}::{ty2} as StableAbi>::LAYOUT))]),")
    body.append("] }")
    body.append(MAIN)
    write_if_changed(os.path.join(d, "src", "main.rs"), "\n".join(body))
    return d


MAIN = """
fn and_table(ctx: &Ctx) {
    use VerifyLayout::*;
    let vals = || [Valid, Invalid, Unknown];
    for (i, a) in vals().into_iter().enumerate() {
        for (j, b) in vals().into_iter().enumerate() {
            let want = if i == 1 || j == 1 { "Invalid" } else if i == 2 || j == 2 { "Unknown" } else { "Valid" };
            let (an, bn) = (verdict(&a), verdict(&b));
            let a2 = match an { "Valid" => Valid, "Invalid" => Invalid, _ => Unknown };
            let got = a2.and(b);
            let case = serde_json::json!({"left": an, "right": bn});
            ctx.eval_nofreeze("and-table", &case, |_| {
                if verdict(&got) != want {
                    return Err(Fail::new("C20:and-table", format!("{an}.and({bn}) = {}, expected {want} (Invalid absorbs, Unknown dominates Valid)", verdict(&got))));
                }
                Ok(Info::new(true))
            });
        }
    }
    // strict / relaxed readings
    let ok = Valid.is_valid_strict() && !Unknown.is_valid_strict() && !Invalid.is_valid_strict() && Valid.is_valid_relaxed() && Unknown.is_valid_relaxed() && !Invalid.is_valid_relaxed();
    ctx.eval_nofreeze("and-table", &serde_json::json!({"predicates": true}), |_| if ok { Ok(Info::new(true)) } else { Err(Fail::new("C20:predicates", "is_valid_strict/is_valid_relaxed disagree with the documented meaning".to_string())) });
}

fn main() {
    let args = Args::parse();
    let ctx = Ctx::new(args);
    let replay: Option<Pair> = ctx.replay_for("pairs");
    if !ctx.is_replay() {
        and_table(&ctx);
    }
    for (p, v_box, v_arc, v_none, v_self, v_chk) in pairs() {
        if let Some(r) = &replay { if r.id != p.id { continue; } } else if ctx.is_replay() { continue; }
        ctx.eval_nofreeze("pairs", &p, |p| {
            for (which, v) in ["(Some, None)", "(None, Some)", "(None, None)", "check(None)"].iter().zip(v_none.iter()) {
                if !matches!(v, VerifyLayout::Unknown) {
                    return Err(Fail::new("C20:missing-not-unknown", format!("a missing layout description {which} gives {}", verdict(v))));
                }
            }
            if !matches!(v_self, VerifyLayout::Valid) {
                return Err(Fail::new("C20:identical-rejected", format!("a type compared with its own layout gives {}", verdict(&v_self))));
            }
            for (which, v) in [("Box", &v_box), ("ArcBox", &v_arc), ("Box (VerifyLayout::check of the edited type against the original's description, after that description had been checked once)", &v_chk[0]), ("ArcBox (VerifyLayout::check)", &v_chk[1])] {
                match (p.expect.as_str(), v) {
                    ("same", VerifyLayout::Valid) => {}
                    ("same", other) => return Err(Fail::new("C20:identical-rejected", format!("edit `{}` leaves the C-visible interface identical but the {which} object types compare as {}", p.kind, verdict(other)))),
                    // an edit that leaves every C type unchanged (a parameter rename, &str <-> &[u8])
                    // carries no requirement: the validator may be stricter than the C interface
                    ("neutral", _) => {}
                    ("differs", VerifyLayout::Valid) => return Err(Fail::new("C20:difference-accepted", format!("edit `{}` changes the C-visible interface but the {which} object types compare as Valid", p.kind))),
                    _ => {}
                }
            }
            Ok(Info::new(p.expect == "differs").class(format!("edit:{}", p.kind)).class(format!("expect:{}", p.expect)))
        });
    }
    let code = ctx.finish("pairs (definition, single-edit variant) over traits with 1-4 methods on StableAbi leaf types and groups built from them: edits = add/remove/rename/reorder a method, change one argument or return type (C-visible, or C-neutral such as &str <-> &[u8] or a parameter rename), change receiver kind, toggle int_result, add/remove an argument, add a provided #[vtbl_only] method (C-visible) or a provided #[skip_func] method (not C-visible), change the element type of a slice argument that follows an unchanged slice use, add/remove an optional trait, swap mandatory/optional, permute the declared order of optional traits (neutral: they are sorted), and the same edits applied to the trait of an object that a method of the compared type RETURNS (owned or by mutable reference); both sides are expanded in separate modules of a crate built with the layout_checks feature and the Box and ArcBox opaque object/group types are compared with compare_layouts and with VerifyLayout::check (expected type vs found description, also right after a successful check of the same description). Oracle: identical C-visible interface => Valid; different => not Valid; missing description => Unknown; type vs itself => Valid; plus the 9 ordered pairs of the `and` table. Non-trivial = the edited pairs", &["the expected verdict comes from the generator's model of the C-visible signature (method name, receiver, wrapped argument/return types)"], false);
    std::process::exit(code);
}
"""
