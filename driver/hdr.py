"""C17/C18: models of exported APIs rendered in cbindgen's output shape, post-processed by /repo's
cglue-bindgen, then compiled and *executed* against mock vtables.

The emitter produces fully concrete (monomorphic) item shapes only - exactly the shapes that
appear verbatim in examples/pregen-headers/bindings.h (struct bodies, doc comments, typedef
chains, the zero-sized RetTmp typedef block the tool is written to delete).
"""
import os, random, re, subprocess, json, hashlib, shutil

INCLUDES_C = "#include <stdarg.h>\n#include <stdbool.h>\n#include <stdint.h>\n#include <stdlib.h>\n\n"

DOC_CBOX = """/**
 * FFI-safe box
 *
 * This box has a static self reference, alongside a custom drop function.
 *
 * The drop function can be called from anywhere, it will free on correct allocator internally.
 */
"""
DOC_CARC = """/**
 * FFI-Safe Arc
 *
 * This is an FFI-Safe equivalent of Arc<T> and Option<Arc<T>>.
 */
"""
DOC_RETTMP_ZST = """/**
 * Type definition for temporary return value wrapping storage.
 *
 * The trait does not use return wrapping, thus is a typedef to `PhantomData`.
 *
 * Note that `cbindgen` will generate wrong structures for this type. It is important
 * to go inside the generated headers and fix it - all RetTmp structures without a
 * body should be completely deleted, both as types, and as fields in the
 * groups/objects. If C++11 templates are generated, it is important to define a
 * custom type for CGlueTraitObj that does not have `ret_tmp` defined, and change all
 * type aliases of this trait to use that particular structure.
 */
"""
DOC_RETTMP_SIZED = """/**
 * Temporary return value structure, for returning wrapped references.
 *
 * This structure contains data for each vtable function that returns a reference to
 * an associated type. Note that these temporary values should not be accessed
 * directly. Use the trait functions.
 */
"""
DOC_CONTAINER = """/**
 * Simple CGlue trait object container.
 *
 * This is the simplest form of container, represented by an instance, clone context, and
 * temporary return context.
 *
 * `instance` value usually is either a reference, or a mutable reference, or a `CBox`, which
 * contains static reference to the instance, and a dedicated drop function for freeing resources.
 *
 * `context` is either `PhantomData` representing nothing, or typically a `CArc` that can be
 * cloned at will, reference counting some resource, like a `Library` for automatic unloading.
 *
 * `ret_tmp` is usually `PhantomData` representing nothing, unless the trait has functions that
 * return references to associated types, in which case space is reserved for wrapping structures.
 */
"""
DOC_OBJ = """/**
 * Simple CGlue trait object.
 *
 * This is the simplest form of CGlue object, represented by a container and vtable for a single
 * trait.
 *
 * Container merely is a this pointer with some optional temporary return reference context.
 */
"""


def doc_vtbl(t):
    return f"""/**
 * CGlue vtable for trait {t}.
 *
 * This virtual function table contains ABI-safe interface for the given trait.
 */
"""


def doc_group(g, traits):
    tl = " + ".join(f"{t} < >" for t in traits)
    return f"""/**
 * Trait group potentially implementing `{tl}` traits.
 *
 * Optional traits are not implemented here, however. There are numerous conversion
 * functions available for safely retrieving a concrete collection of traits.
 *
 * `check_impl_` functions allow to check if the object implements the wanted traits.
 *
 * `into_impl_` functions consume the object and produce a new final structure that
 * keeps only the required information.
 *
 * `cast_impl_` functions merely check and transform the object into a type that can
 *be transformed back into `{g}` without losing data.
 *
 * `as_ref_`, and `as_mut_` functions obtain references to safe objects, but do not
 * perform any memory transformations either. They are the safest to use, because
 * there is no risk of accidentally consuming the whole object.
 */
"""


# ---- cbindgen name mangling ---------------------------------------------------------------------

class Ty:
    def __init__(self, name, args=()):
        self.name, self.args = name, list(args)

    def mangle(self, last=True):
        if not self.args:
            return self.name
        parts = []
        for i, a in enumerate(self.args):
            parts.append(a.mangle(last=last and i == len(self.args) - 1))
        s = self.name + "_" + "__".join(parts)
        if not last:
            s += "___"
        return s


C_VOID = Ty("c_void")
CONT_TY = {"Box": Ty("CBox", [C_VOID]), "Mut": Ty("____c_void"), "Ref": Ty("_____c_void")}
CTX_TY = {"Arc": Ty("CArc", [C_VOID]), "None": Ty("NoContext")}
INSTANCE_FIELD = {"Box": "struct CBox_c_void instance;", "Mut": "void *instance;", "Ref": "const void *instance;"}
CTX_FIELD = {"Arc": "struct CArc_c_void context;", "None": "struct NoContext context;"}

# ---- API model ----------------------------------------------------------------------------------

SCALARS = ["uint8_t", "uint32_t", "uint64_t", "int32_t", "int64_t", "uintptr_t", "bool", "double"]


class Method:
    def __init__(self, name, recv, args, ret):
        """recv: 'const' | 'mut' | 'own'; args: list of (ctype, name, kind); ret: (ctype, kind)"""
        self.name, self.recv, self.args, self.ret = name, recv, args, ret


class Trait:
    def __init__(self, name, methods):
        self.name, self.methods = name, methods


class Inst:
    """one instantiation (object of a trait / group) with a container and context kind"""
    def __init__(self, kind, name, cont, ctx):
        self.kind, self.name, self.cont, self.ctx = kind, name, cont, ctx


LICENSE_TXT = "/*\n * Copyright (c) The Example Authors.\n * Licensed under the MIT license; see LICENSE.\n */\n"
WARNING_TXT = "/* Warning, this file is autogenerated by cbindgen. Don't modify this manually. */\n"


def preamble_parts(model):
    """(text before the includes, text after the last item, foreign declarations among them)"""
    pre = getattr(model, "preamble", None) or {}
    head, tail, foreign = "", "", []
    if pre.get("license"):
        head += LICENSE_TXT + "\n"
        foreign.append(LICENSE_TXT)
    if pre.get("guard"):
        head += "#ifndef EXAMPLE_API_H\n#define EXAMPLE_API_H\n\n"
        tail = "\n#endif /* EXAMPLE_API_H */\n"
    if pre.get("warning"):
        head += WARNING_TXT + "\n"
        foreign.append(WARNING_TXT)
    return head, tail, foreign


class Model:
    def __init__(self):
        self.traits = {}
        self.groups = {}     # name -> (mandatory trait names, optional trait names)
        self.insts = []      # Inst
        self.foreign = []    # (position key, text)
        self.user_structs = []
        self.mode = "C"
        self.config = {}
        self.omit_unused_carriers = False
        self.cb_payload = "Pair"


def gen_model(rng, foreign=True):
    m = Model()
    # payload type of callbacks: a struct (the shape of the repository's example) or, rarely, a primitive
    m.cb_payload = "u32" if rng.random() < 0.08 else "Pair"
    nt = rng.randint(1, 4)
    names = rng.sample(["Alpha", "Beta", "Gamma", "Delta", "Reader", "Writer", "Store", "Dumper"], nt)
    # sometimes one trait's name is a proper suffix of another's (Store / KeyStore): the tool
    # finds its items with regular expressions over names
    if rng.random() < 0.3:
        base = rng.choice(names)
        longer = rng.choice(["Key", "Plugin", "Meta"]) + base
        if len(names) == 4:
            names[rng.randrange(4) if names.index(base) != 3 else 0] = longer
            if base not in names:
                names[0 if names[0] != longer else 1] = base
        else:
            names.append(longer)
    shared_method = rng.random() < 0.5  # deliberate method-name clash between traits
    m.user_structs = [("Pair", "    uint32_t a;\n    uint64_t b;\n")]
    for ti, tn in enumerate(names):
        methods = []
        for j in range(rng.randint(1, 4)):
            recv = rng.choices(["const", "mut", "own"], [5, 4, 1])[0]
            args = []
            for k in range(rng.choice([0, 1, 1, 2, 3, 4])):
                r = rng.random()
                if r < 0.55:
                    args.append((rng.choice(SCALARS), f"a{k}", "scalar"))
                elif r < 0.7:
                    args.append(("struct Pair", f"a{k}", "pair"))
                elif r < 0.82:
                    args.append(("struct CSliceRef_u8", f"a{k}", "slice"))
                elif r < 0.9:
                    args.append(("const uint32_t *", f"a{k}", "ptr"))
                else:
                    args.append(("OpaqueCallback_" + m.cb_payload, f"a{k}", "callback"))
            r = rng.random()
            if r < 0.25:
                ret = ("void", "void")
            elif r < 0.7:
                ret = (rng.choice(SCALARS), "scalar")
            elif r < 0.82:
                ret = ("struct Pair", "pair")
            elif r < 0.9:
                ret = ("struct CSliceRef_u8", "slice")
            else:
                ret = ("SELF_CONTAINER", "self")  # e.g. Clone: returns the container
                if recv == "own":
                    recv = "const"
            name = "common" if (shared_method and j == 0 and ti < 2) else f"{tn.lower()}_m{j}"
            methods.append(Method(name, recv, args, ret))
        m.traits[tn] = Trait(tn, methods)
        # real (non-zero-sized) temporary-return storage, as for traits returning borrowed wrapped objects
        m.traits[tn].rettmp_sized = rng.random() < 0.25
    # the clashing method sometimes has the very same signature in both traits and sits at
    # different vtable positions (a wrapper chosen by name + signature alone would hit the wrong slot)
    if shared_method and len(names) >= 2 and rng.random() < 0.5:
        import copy as _copy
        first = m.traits[names[0]].methods[0]
        t2 = m.traits[names[1]]
        if first.name == "common" and t2.methods and t2.methods[0].name == "common":
            twin = _copy.deepcopy(first)
            t2.methods = t2.methods[1:] + [twin]
    # objects
    for tn in names:
        for _ in range(rng.randint(1, 2)):
            has_own = any(x.recv == "own" for x in m.traits[tn].methods)
            has_mut = any(x.recv == "mut" for x in m.traits[tn].methods)
            conts = ["Box"] + ([] if has_own else ["Mut"] + ([] if has_mut else ["Ref"]))
            inst = Inst("obj", tn, rng.choice(conts), rng.choice(["Arc", "Arc", "None"]))
            if not any(i.kind == "obj" and i.name == tn and i.cont == inst.cont and i.ctx == inst.ctx for i in m.insts):
                m.insts.append(inst)
    # groups
    for gi in range(rng.randint(0, 2)):
        if len(names) < 2:
            break
        members = rng.sample(names, rng.randint(2, min(3, len(names))))
        nm = rng.randint(1, len(members) - 1)
        gname = ["Features", "Bundle"][gi] + "Group"
        if rng.random() < 0.25:
            # a group whose own name ends like one of the generated item names
            gname = ["Data", "Device"][gi] + "Container"
        m.groups[gname] = (members[:nm], members[nm:])
        has_own = any(x.recv == "own" for t in members for x in m.traits[t].methods)
        conts = ["Box"] + ([] if has_own else ["Mut"])
        for c in rng.sample(conts, rng.randint(1, len(conts))):
            m.insts.append(Inst("group", gname, c, rng.choice(["Arc", "Arc", "None"])))
    # foreign (user) declarations interleaved with the cglue items; some look like cglue patterns
    if foreign:
        pool = [
            "typedef struct UserThing {\n    int32_t x;\n    int32_t y;\n} UserThing;\n",
            "/**\n * Gr\u00f6\u00dfe in \u00b5m \u2014 \u00a9 M\u00fcller, \u65e5\u672c\u8a9e\n */\ntypedef struct UserMetric {\n    double um;\n} UserMetric;\n",
            "#define USER_VENDOR \"M\u00fcller & S\u00f8n \u2122\"\n",
            "typedef uint32_t UserHandle;\n",
            "typedef struct MyVtblHolder {\n    const void *p;\n} MyVtblHolder;\n",
            "typedef struct ContextInfo {\n    uint8_t kind;\n} ContextInfo;\n",
            "typedef struct SomeRetTmpLike {\n    uint64_t v;\n} SomeRetTmpLike;\n",
            "typedef struct UserContainerStats {\n    uintptr_t n;\n} UserContainerStats;\n",
            "enum UserMode\n#ifdef __cplusplus\n  : uint8_t\n#endif // __cplusplus\n {\n    UserMode_Fast,\n    UserMode_Slow,\n};\n#ifndef __cplusplus\ntypedef uint8_t UserMode;\n#endif // __cplusplus\n",
            "/**\n * A user documented type.\n */\ntypedef struct CGlueXUser {\n    double d;\n} CGlueXUser;\n",
            # user types that look like vtables / containers / objects to a regular expression
            "typedef struct UserOpsVtbl {\n    int32_t (*open)(const struct UserThing2 *cont, uint32_t flags);\n    void (*close)(struct UserThing2 *cont);\n} UserOpsVtbl;\n",
            "typedef struct UserThing2 {\n    const struct UserOpsVtbl2 *vtbl;\n    uint64_t container;\n} UserThing2;\n",
            "typedef struct UserSlot {\n    uint32_t ret_tmp;\n    uint8_t context;\n    void *instance;\n} UserSlot;\n",
            "/**\n * CGlue vtable for trait Nothing (says a user's comment).\n */\ntypedef struct UserNote {\n    uint8_t n;\n} UserNote;\n",
            "typedef int32_t (*UserCallbackFn)(void *context, const uint8_t *data, uintptr_t len);\n",
            "#define USER_LIMIT 16\n",
        ]
        for txt in rng.sample(pool, rng.randint(0, 5)):
            m.foreign.append((rng.random(), txt))
    # cbindgen only prints the carrier types the exported items reach; most real APIs reach both
    m.omit_unused_carriers = rng.random() < 0.12
    # what cbindgen's `header`, `include_guard` and `autogen_warning` options put before the includes
    m.preamble = {"license": rng.random() < 0.25, "guard": rng.random() < 0.2, "warning": rng.random() < 0.2}
    # an item that is generic over the context (cbindgen prints the type parameter's name, `Context`):
    # the tool monomorphises it for every context kind the header mentions
    m.generic_ctx = None
    if rng.random() < 0.35:
        tn = rng.choice(names)
        used = {i.cont for i in m.insts if i.kind == "obj" and i.name == tn}
        free = [c for c in ("Box", "Mut", "Ref") if c not in used]
        if free:
            m.generic_ctx = (tn, rng.choice(free))
    cfg = {}
    if rng.random() < 0.5:
        cfg["default_container"] = rng.choice(["Box", "Mut"])
        cfg["default_context"] = rng.choice(["Arc", "NoContext"]) if rng.random() < 0.8 else "Arc"
    if rng.random() < 0.3:
        cfg["function_prefix"] = rng.choice(["cg", "plug"])
    m.config = cfg
    return m


# ---- rendering ------------------------------------------------------------------------------------

def cont_struct_name(inst, model):
    c, x = CONT_TY[inst.cont], CTX_TY[inst.ctx]
    if inst.kind == "obj":
        rt = Ty(inst.name + "RetTmp", [x])
        return Ty("CGlueObjContainer", [c, x, rt]).mangle()
    return Ty(inst.name + "Container", [c, x]).mangle()


def obj_struct_name(inst, model):
    c, x = CONT_TY[inst.cont], CTX_TY[inst.ctx]
    if inst.kind == "obj":
        rt = Ty(inst.name + "RetTmp", [x])
        cont = Ty("CGlueObjContainer", [c, x, rt])
        return Ty("CGlueTraitObj", [c, Ty(inst.name + "Vtbl", [cont]), x, rt]).mangle()
    return Ty(inst.name, [c, x]).mangle()


def vtbl_struct_name(trait, inst, model):
    return f"{trait}Vtbl_{cont_struct_name(inst, model)}"


def render_method(meth, cont_name, self_obj):
    cont_arg = {"const": f"const struct {cont_name} *cont", "mut": f"struct {cont_name} *cont", "own": f"struct {cont_name} cont"}[meth.recv]
    args = "".join(f", {t}{'' if t.endswith('*') else ' '}{n}" for (t, n, _) in meth.args)
    ret = f"struct {cont_name}" if meth.ret[1] == "self" else meth.ret[0]
    sep = "" if ret.endswith("*") else " "
    return f"    {ret}{sep}(*{meth.name})({cont_arg}{args});\n"


def render(model):
    """raw header text as cbindgen would print it (C mode) + ordered list of foreign declarations"""
    items = []  # (sort key, text)
    pos = 0.0

    def add(txt):
        nonlocal pos
        pos += 1
        items.append((pos, txt))

    uses_box = any(i.cont == "Box" for i in model.insts) or not getattr(model, "omit_unused_carriers", False) or (getattr(model, "generic_ctx", None) or (None, None))[1] == "Box"
    uses_arc = any(i.ctx == "Arc" for i in model.insts) or not getattr(model, "omit_unused_carriers", False)
    uses_cb = any(k == "callback" for t in model.traits.values() for me in t.methods for (_, _, k) in me.args)
    uses_slice = any(k == "slice" for t in model.traits.values() for me in t.methods for (_, _, k) in list(me.args) + [(None, None, me.ret[1])])
    for (n, body) in model.user_structs:
        add(f"typedef struct {n} {{\n{body}}} {n};\n")
    if uses_slice:
        add("typedef struct CSliceRef_u8 {\n    const uint8_t *data;\n    uintptr_t len;\n} CSliceRef_u8;\n")
    if uses_cb:
        pl = model.cb_payload
        cty = "struct Pair" if pl == "Pair" else "uint32_t"
        add(f"typedef struct Callback_c_void__{pl} {{\n    void *context;\n    bool (*func)(void*, {cty});\n}} Callback_c_void__{pl};\n")
        add(f"typedef struct Callback_c_void__{pl} OpaqueCallback_{pl};\n")
    if uses_box:
        add(DOC_CBOX + "typedef struct CBox_c_void {\n    void *instance;\n    void (*drop_fn)(void*);\n} CBox_c_void;\n")
    if uses_arc:
        add(DOC_CARC + "typedef struct CArc_c_void {\n    const void *instance;\n    const void *(*clone_fn)(const void*);\n    void (*drop_fn)(const void*);\n} CArc_c_void;\n")
    seen_rettmp = set()
    for inst in model.insts:
        x = CTX_TY[inst.ctx].mangle()
        traits = [inst.name] if inst.kind == "obj" else list(model.groups[inst.name][0]) + list(model.groups[inst.name][1])
        for t in traits:
            if (t, x) not in seen_rettmp:
                seen_rettmp.add((t, x))
                if getattr(model.traits[t], "rettmp_sized", False):
                    add(DOC_RETTMP_SIZED + f"typedef struct {t}RetTmp_{x} {{\n    struct Pair mut_{t.lower()}_thing;\n}} {t}RetTmp_{x};\n")
                else:
                    add(DOC_RETTMP_ZST + f"typedef struct {t}RetTmp_{x} {t}RetTmp_{x};\n")
        cn = cont_struct_name(inst, model)
        on = obj_struct_name(inst, model)
        if inst.kind == "obj":
            add(DOC_CONTAINER + f"typedef struct {cn} {{\n    {INSTANCE_FIELD[inst.cont]}\n    {CTX_FIELD[inst.ctx]}\n    struct {inst.name}RetTmp_{x} ret_tmp;\n}} {cn};\n")
            vn = vtbl_struct_name(inst.name, inst, model)
            add(doc_vtbl(inst.name) + f"typedef struct {vn} {{\n" + "".join(render_method(me, cn, on) for me in model.traits[inst.name].methods) + f"}} {vn};\n")
            add(DOC_OBJ + f"typedef struct {on} {{\n    const struct {vn} *vtbl;\n    struct {cn} container;\n}} {on};\n")
            alias = f"{inst.name}{'Arc' if inst.ctx == 'Arc' else ''}{inst.cont}"
            add(f"/**\n * Base CGlue trait object for trait {inst.name}.\n */\ntypedef struct {on} {inst.name}Base_{CONT_TY[inst.cont].mangle(False)}__{x};\n")
            add(f"/**\n * Opaque {inst.cont} CGlue trait object for trait {inst.name}.\n */\ntypedef {inst.name}Base_{CONT_TY[inst.cont].mangle(False)}__{x} {alias};\n")
        else:
            mand, opt = model.groups[inst.name]
            sm, so = sorted(mand), sorted(opt)
            add(f"typedef struct {cn} {{\n    {INSTANCE_FIELD[inst.cont]}\n    {CTX_FIELD[inst.ctx]}\n" + "".join(f"    struct {t}RetTmp_{x} ret_tmp_{t.lower()};\n" for t in sm + so) + f"}} {cn};\n")
            for t in sm + so:
                vn = vtbl_struct_name(t, inst, model)
                add(doc_vtbl(t) + f"typedef struct {vn} {{\n" + "".join(render_method(me, cn, on) for me in model.traits[t].methods) + f"}} {vn};\n")
            add(doc_group(inst.name, sm + so) + f"typedef struct {on} {{\n" + "".join(f"    const struct {vtbl_struct_name(t, inst, model)} *vtbl_{t.lower()};\n" for t in sm + so) + f"    struct {cn} container;\n}} {on};\n")
            alias = f"{inst.name}{'Arc' if inst.ctx == 'Arc' else ''}{inst.cont}"
            add(f"/**\n * Opaque {inst.cont} CGlue trait group {inst.name}.\n */\ntypedef struct {on} {alias};\n")
    gc = getattr(model, "generic_ctx", None)
    if gc and any(i.kind == "obj" and i.name == gc[0] for i in model.insts):
        t, c = gc
        cm = CONT_TY[c].mangle(False)
        add(DOC_RETTMP_ZST + f"typedef struct {t}RetTmp_Context {t}RetTmp_Context;\n")
        add(DOC_CONTAINER + f"typedef struct CGlueObjContainer_{cm}__Context_____{t}RetTmp_Context {{\n    {INSTANCE_FIELD[c]}\n    Context context;\n    struct {t}RetTmp_Context ret_tmp;\n}} CGlueObjContainer_{cm}__Context_____{t}RetTmp_Context;\n")
    # interleave foreign declarations at generated positions (never inside an item)
    n = len(items)
    all_items = list(items)
    foreign_texts = []
    for (frac, txt) in sorted(model.foreign):
        all_items.append((frac * n + 0.5, txt))
    all_items.sort(key=lambda p: p[0])
    body = "\n".join(t for (_, t) in all_items)
    foreign_texts = [t for (_, t) in all_items if any(t is f[1] or t == f[1] for f in model.foreign)]
    funcs = []
    for inst in model.insts[:3]:
        alias = f"{inst.name}{'Arc' if inst.ctx == 'Arc' else ''}{inst.cont}"
        funcs.append(f"int32_t make_{alias.lower()}({alias} *ok_out);\n")
    funcs.append("uint32_t user_function(uint32_t x);\n")
    foreign_texts += funcs
    ext = "#ifdef __cplusplus\nextern \"C\" {\n#endif // __cplusplus\n\n" + "\n".join(funcs) + "\n#ifdef __cplusplus\n} // extern \"C\"\n#endif // __cplusplus\n"
    head, tail, pf = preamble_parts(model)
    return head + INCLUDES_C + body + "\n" + ext + tail, pf + foreign_texts


# ---- execution oracle (C) ----------------------------------------------------------------------

ARGV = {
    "uint8_t": lambda k: f"(uint8_t)({0xA1 + k})", "uint32_t": lambda k: f"(uint32_t)0xC0DE{k:04x}u", "uint64_t": lambda k: f"(uint64_t)0x11223344556600{k:02x}ull",
    "int32_t": lambda k: f"(int32_t)(-1000 - {k})", "int64_t": lambda k: f"(int64_t)(-5000000000000ll - {k})", "uintptr_t": lambda k: f"(uintptr_t)(0x7000 + {k})",
    "bool": lambda k: "true" if k % 2 == 0 else "false", "double": lambda k: f"(1.5 + {k})",
}


def arg_value(ctype, kind, k):
    if kind == "scalar":
        return ARGV[ctype](k)
    if kind == "pair":
        return f"(struct Pair){{ {7 + k}u, 0x998877665544{k:02x}ull }}"
    if kind == "slice":
        return f"(struct CSliceRef_u8){{ g_buf + {k}, {3 + k} }}"
    if kind == "ptr":
        return f"&g_words[{k}]"
    if kind == "callback":
        return f"(OpaqueCallback_Pair){{ &g_words[{k}], mock_cb }}"  # (models with a primitive payload do not reach execution)
    raise ValueError(kind)


def arg_check(ctype, kind, name, k):
    v = arg_value(ctype, kind, k)
    if kind == "scalar":
        return f"({name} == {v})"
    if kind == "pair":
        return f"({name}.a == {7 + k}u && {name}.b == 0x998877665544{k:02x}ull)"
    if kind == "slice":
        return f"({name}.data == g_buf + {k} && {name}.len == {3 + k})"
    if kind == "ptr":
        return f"({name} == &g_words[{k}])"
    if kind == "callback":
        return f"({name}.context == (void *)&g_words[{k}] && {name}.func == mock_cb)"


def ret_value(ctype, kind, sid):
    if kind == "scalar":
        return ARGV[ctype](sid % 200)
    if kind == "pair":
        return f"(struct Pair){{ {900 + sid}u, {sid}ull }}"
    if kind == "slice":
        return f"(struct CSliceRef_u8){{ g_buf + 1, {sid + 1} }}"


def ret_check(ctype, kind, sid, var):
    if kind == "scalar":
        return f"({var} == {ARGV[ctype](sid % 200)})"
    if kind == "pair":
        return f"({var}.a == {900 + sid}u && {var}.b == {sid}ull)"
    if kind == "slice":
        return f"({var}.data == g_buf + 1 && {var}.len == {sid + 1})"


WRAPPER_RE = re.compile(r"^static inline (?P<ret>[^\n(]*?)\s*\b(?P<name>\w+)\((?P<params>[^)]*)\)\s*\{", re.M)


def parse_wrappers(out_text):
    ws = []
    for mt in WRAPPER_RE.finditer(out_text):
        params = [p.strip() for p in mt.group("params").split(",")] if mt.group("params").strip() else []
        ws.append({"name": mt.group("name"), "ret": mt.group("ret").strip(), "params": params})
    return ws


def inst_traits(model, inst):
    if inst.kind == "obj":
        return [inst.name]
    mand, opt = model.groups[inst.name]
    return sorted(mand) + sorted(opt)


def _ptype(param):
    """type part of a C parameter declaration, whitespace-free"""
    m = re.match(r"^(.*?)(\w+)$", param.strip())
    return (m.group(1) if m else param).replace(" ", "")


def candidates(model, inst, trait, mname, wrappers, want_ret=None, want_args=None):
    """wrappers that a C user would pick for this entry of this object type: right name by the
    tool's naming scheme, first parameter accepts the object, return type is the expected one"""
    pfx = model.config.get("function_prefix")
    own = (inst.name.lower() if inst.kind == "group" else trait.lower())
    # group wrappers always carry the group name; object wrappers carry the trait name only when needed
    opt = "" if inst.kind == "group" else "?"
    rx = re.compile(r"^" + (re.escape(pfx) + "_" if pfx else "") + r"(?:" + re.escape(own) + r"_)" + opt + r"(?:(?:arc|box|mut|ref)_){0,2}" + re.escape(mname) + r"$")
    on = obj_struct_name(inst, model)
    out = []
    for w in wrappers:
        if not rx.match(w["name"]) or not w["params"]:
            continue
        if want_ret is not None and w["ret"].replace(" ", "") != want_ret.replace(" ", ""):
            continue
        if want_args is not None and [_ptype(p) for p in w["params"][1:]] != [a.replace(" ", "") for a in want_args]:
            continue
        p0 = w["params"][0]
        if "void" in p0.split("*")[0].split() and "*" in p0:
            out.append(w)
        elif f"struct {on} " in p0 + " " or p0.replace("const ", "").startswith(f"struct {on}"):
            # make sure it is exactly this struct (names are prefixes of each other)
            tname = p0.replace("const ", "").replace("struct ", "").replace("*", " ").split()[0]
            if tname == on:
                out.append(w)
    return out


def c_driver(model, out_text):
    """C translation unit that builds every object with mock vtables and calls every candidate wrapper"""
    wrappers = parse_wrappers(out_text)
    L = ['#include "out.h"', "#include <stdio.h>", "#include <string.h>", ""]
    L.append("static uint8_t g_buf[64]; static uint32_t g_words[16];")
    L.append("enum { EV_SLOT = 1, EV_BOXDROP, EV_CTXCLONE, EV_CTXDROP };")
    L.append("static int g_ev[64]; static int g_evid[64]; static int g_nev; static const void *g_cont; static int g_args_ok; static int g_inst_ok;")
    L.append("static void ev(int k, int id) { if (g_nev < 64) { g_ev[g_nev] = k; g_evid[g_nev] = id; g_nev++; } }")
    L.append("static int g_inst_marker; static int g_ctx_marker;")
    L.append("static void mock_box_drop(void *p) { ev(EV_BOXDROP, p == (void *)&g_inst_marker); }")
    # a clone is a handle of its own: which handle gets released is part of the accounting
    L.append("static int g_ctx_clone_marker;")
    L.append("static const void *mock_arc_clone(const void *p) { ev(EV_CTXCLONE, p == (const void *)&g_ctx_marker); return (const void *)&g_ctx_clone_marker; }")
    L.append("static void mock_arc_drop(const void *p) { ev(EV_CTXDROP, p == (const void *)&g_ctx_marker ? 1 : (p == (const void *)&g_ctx_clone_marker ? 2 : 0)); }")
    L.append("static bool mock_cb(void *c, struct Pair p) { (void)c; (void)p; return true; }")
    L.append("static void poison_stack(void) { volatile unsigned char junk[4096]; memset((void *)junk, 0xAB, sizeof(junk)); }")
    sid = 0
    slots = {}   # (inst idx, trait, method) -> sid
    plan = []
    for ii, inst in enumerate(model.insts):
        cn, on = cont_struct_name(inst, model), obj_struct_name(inst, model)
        for t in inst_traits(model, inst):
            vn = vtbl_struct_name(t, inst, model)
            for me in model.traits[t].methods:
                sid += 1
                slots[(ii, t, me.name)] = sid
                cont_arg = {"const": f"const struct {cn} *cont", "mut": f"struct {cn} *cont", "own": f"struct {cn} cont"}[me.recv]
                args = "".join(f", {ty}{'' if ty.endswith('*') else ' '}{n}" for (ty, n, _) in me.args)
                ret = f"struct {cn}" if me.ret[1] == "self" else me.ret[0]
                checks = " && ".join([arg_check(ty, k, n, j) for j, (ty, n, k) in enumerate(me.args)] or ["1"])
                body = [f"static {ret} mock_{ii}_{t}_{me.name}({cont_arg}{args}) {{", f"    ev(EV_SLOT, {sid});"]
                if me.recv == "own":
                    inst_ptr = {"Box": "cont.instance.instance", "Mut": "cont.instance", "Ref": "cont.instance"}[inst.cont]
                    body.append(f"    g_inst_ok = ((const void *){inst_ptr} == (const void *)&g_inst_marker); g_cont = 0;")
                    # what the Rust side does with a consumed container: release instance and context
                    if inst.cont == "Box":
                        body.append("    if (cont.instance.drop_fn) cont.instance.drop_fn(cont.instance.instance);")
                    if inst.ctx == "Arc":
                        body.append("    if (cont.context.drop_fn) cont.context.drop_fn(cont.context.instance);")
                else:
                    body.append("    g_cont = (const void *)cont; g_inst_ok = 1;")
                body.append(f"    g_args_ok = ({checks});")
                if me.ret[1] == "self":
                    body.append(f"    struct {cn} r = *cont; return r;")
                elif me.ret[1] != "void":
                    body.append(f"    return {ret_value(me.ret[0], me.ret[1], sid)};")
                body.append("}")
                L += body
            L.append(f"static const struct {vn} vt_{ii}_{t} = {{ " + ", ".join(f"mock_{ii}_{t}_{me.name}" for me in model.traits[t].methods) + " };")
    L.append("")
    L.append("#define RESET() do { g_nev = 0; g_cont = 0; g_args_ok = -1; g_inst_ok = -1; poison_stack(); } while (0)")
    L.append("static void report(const char *tag, int inst, const char *trait, const char *meth, const char *wrapper, int want_sid, const void *want_cont, int ret_ok, int vt_ok) {")
    L.append('    int slots = 0, sid = -1, bd = 0, cc = 0, cd = 0, order_ok = 1, seen_slot = 0, i;')
    L.append("    for (i = 0; i < g_nev; i++) { if (g_ev[i] == EV_SLOT) { slots++; sid = g_evid[i]; seen_slot = 1; } if (g_ev[i] == EV_BOXDROP) bd++; if (g_ev[i] == EV_CTXCLONE) { cc++; if (seen_slot) order_ok = 0; } if (g_ev[i] == EV_CTXDROP) cd++; }")
    L.append("    if (g_nev > 0 && cc > 0 && g_ev[g_nev - 1] != EV_CTXDROP) order_ok = 0;")
    L.append('    printf("%s inst=%d trait=%s meth=%s wrapper=%s slots=%d sid=%d want=%d cont_ok=%d inst_ok=%d args_ok=%d ret_ok=%d vt_ok=%d boxdrops=%d ctxclones=%d ctxdrops=%d order_ok=%d\\n", tag, inst, trait, meth, wrapper, slots, sid, want_sid, want_cont ? (g_cont == want_cont) : 1, g_inst_ok, g_args_ok, ret_ok, vt_ok, bd, cc, cd, order_ok);')
    L.append("    fflush(stdout);")
    L.append("}")
    L.append("int main(void) {")
    L.append("    int i; for (i = 0; i < 64; i++) g_buf[i] = (uint8_t)i;")
    for ii, inst in enumerate(model.insts):
        cn, on = cont_struct_name(inst, model), obj_struct_name(inst, model)
        traits = inst_traits(model, inst)

        def build(var):
            b = [f"        struct {on} {var}; memset(&{var}, 0, sizeof({var}));"]
            if inst.kind == "obj":
                b.append(f"        {var}.vtbl = &vt_{ii}_{traits[0]};")
            else:
                for t in traits:
                    b.append(f"        {var}.vtbl_{t.lower()} = &vt_{ii}_{t};")
            if inst.cont == "Box":
                b.append(f"        {var}.container.instance.instance = &g_inst_marker; {var}.container.instance.drop_fn = mock_box_drop;")
            else:
                b.append(f"        {var}.container.instance = &g_inst_marker;")
            if inst.ctx == "Arc":
                b.append(f"        {var}.container.context.instance = &g_ctx_marker; {var}.container.context.clone_fn = mock_arc_clone; {var}.container.context.drop_fn = mock_arc_drop;")
            return b

        for t in traits:
            for me in model.traits[t].methods:
                want = slots[(ii, t, me.name)]
                want_ret = f"struct {on}" if me.ret[1] == "self" else me.ret[0]
                cands = candidates(model, inst, t, me.name, wrappers, want_ret)
                cands = candidates(model, inst, t, me.name, wrappers, want_ret, [ty for (ty, _, _) in me.args])
                # a method name shared by several traits of one group: group wrappers are named
                # {group}_{method}; whether this entry is the one that got the name shows at run time
                clash_dropped = False
                shared = inst.kind == "group" and len([x for x in traits if any(y.name == me.name for y in model.traits[x].methods)]) > 1
                plan.append({"inst": ii, "trait": t, "meth": me.name, "recv": me.recv, "ret": me.ret[1], "cands": [w["name"] for w in cands], "sid": want, "shared_name": shared})
                for w in cands:
                    L.append("    {")
                    L += build("o")
                    byval = "*" not in w["params"][0]
                    selfarg = "o" if byval else "&o"
                    args = "".join(", " + arg_value(ty, k, j) for j, (ty, n, k) in enumerate(me.args))
                    L.append("        RESET();")
                    call = f"{w['name']}({selfarg}{args})"
                    if me.ret[1] == "void":
                        L.append(f"        {call};")
                        L.append(f'        report("CALL", {ii}, "{t}", "{me.name}", "{w["name"]}", {want}, {"0" if byval else "&o.container"}, 1, 1);')
                    elif me.ret[1] == "self":
                        L.append(f"        struct {on} r = {call};")
                        if inst.kind == "obj":
                            vt = "(r.vtbl == o.vtbl)"
                        else:
                            vt = "(" + " && ".join(f"r.vtbl_{x.lower()} == o.vtbl_{x.lower()}" for x in traits) + ")"
                        L.append(f"        int ret_ok = (memcmp(&r.container, &o.container, sizeof(o.container)) == 0);")
                        L.append(f'        report("CALL", {ii}, "{t}", "{me.name}", "{w["name"]}", {want}, {"0" if byval else "&o.container"}, ret_ok, {vt});')
                    else:
                        L.append(f"        {me.ret[0]} r = {call};")
                        L.append(f'        report("CALL", {ii}, "{t}", "{me.name}", "{w["name"]}", {want}, {"0" if byval else "&o.container"}, {ret_check(me.ret[0], me.ret[1], want, "r")}, 1);')
                    L.append("    }")
        # the drop helper
        own = inst.name.lower()
        dc = candidates(model, inst, inst.name if inst.kind == "obj" else traits[0], "drop", wrappers)
        dc = [w for w in dc if "*" not in w["params"][0]]
        plan.append({"inst": ii, "trait": inst.name, "meth": "drop", "recv": "own", "ret": "void", "cands": [w["name"] for w in dc], "sid": 0, "drop": True})
        for w in dc:
            L.append("    {")
            L += build("o")
            L.append("        RESET();")
            L.append(f"        {w['name']}(o);")
            L.append(f'        report("DROP", {ii}, "{inst.name}", "drop", "{w["name"]}", 0, 0, 1, 1);')
            L.append("    }")
    L.append("    return 0;")
    L.append("}")
    return "\n".join(L) + "\n", plan


# =================================================================================================
# C++ mode: the same API models rendered in cbindgen's C++ (template) output shape
# =================================================================================================

INCLUDES_CPP = "#include <cstdarg>\n#include <cstdint>\n#include <cstdlib>\n#include <ostream>\n#include <new>\n\n"

DOC_CSLICEREF = """/**
 * Wrapper around const slices.
 *
 * This is meant as a safe type to pass across the FFI boundary with similar semantics as regular
 * slice. However, not all functionality is present, use the slice conversion functions.
 */
"""

CPP_TY = {"struct Pair": "Pair", "struct CSliceRef_u8": "CSliceRef<uint8_t>", "struct CSliceRef_CSliceRef_u8": "CSliceRef<CSliceRef<uint8_t>>", "struct Duo_CSliceRef_u8_u32": "Duo<CSliceRef<uint8_t>, uint32_t>"}
CPP_INST = {"Box": "CBox<void>", "Mut": "void *", "Ref": "const void *"}
CPP_CTX = {"Arc": "CArc<void>", "None": "void"}


def cpp_type(model, cty):
    if cty.startswith("OpaqueCallback_"):
        return "OpaqueCallback<" + ("Pair" if model.cb_payload == "Pair" else "uint32_t") + ">"
    return CPP_TY.get(cty, cty)


def render_method_cpp(model, meth):
    cont_arg = {"const": "const CGlueC *cont", "mut": "CGlueC *cont", "own": "CGlueC cont"}[meth.recv]
    args = "".join(f", {cpp_type(model, t)}{'' if t.endswith('*') else ' '}{n}" for (t, n, _) in meth.args)
    ret = "CGlueC" if meth.ret[1] == "self" else cpp_type(model, meth.ret[0])
    sep = "" if ret.endswith("*") else " "
    return f"    {ret}{sep}(*{meth.name})({cont_arg}{args});\n"


def cpp_alias(inst):
    return f"{inst.name}{'Arc' if inst.ctx == 'Arc' else ''}{inst.cont}"


def render_cpp(model):
    """raw header text as cbindgen prints it with `-l C++` + ordered list of foreign declarations"""
    items = []
    pos = 0.0

    def add(txt):
        nonlocal pos
        pos += 1
        items.append((pos, txt))

    all_traits = sorted(model.traits)
    used_traits = []
    for inst in model.insts:
        for t in inst_traits(model, inst):
            if t not in used_traits:
                used_traits.append(t)
    uses_cb = any(k == "callback" for t in used_traits for me in model.traits[t].methods for (_, _, k) in me.args)
    uses_duo = any(k == "duo" for t in used_traits for me in model.traits[t].methods for (_, _, k) in me.args)
    uses_slice = uses_duo or any(k in ("slice", "slice2") for t in used_traits for me in model.traits[t].methods for (_, _, k) in list(me.args) + [(None, None, me.ret[1])])
    has_obj = any(i.kind == "obj" for i in model.insts)
    for t in sorted(used_traits):
        add(DOC_RETTMP_ZST + f"template<typename CGlueCtx = void>\nstruct {t}RetTmp;\n")
    if model.cpp_maybe_uninit:
        add("template<typename T = void>\nstruct MaybeUninit;\n")
    add(DOC_CARC + "template<typename T>\nstruct CArc {\n    const T *instance;\n    const T *(*clone_fn)(const T*);\n    void (*drop_fn)(const T*);\n};\n")
    add(DOC_CBOX + "template<typename T>\nstruct CBox {\n    T *instance;\n    void (*drop_fn)(T*);\n};\n")
    if getattr(model, "cpp_out_fn", False):
        # an exported function with an integer-coded result: cbindgen prints the output slot as
        # `MaybeUninit<T> *`, which the tool rewrites to `T *`
        add("extern \"C\" {\n\nint32_t load_thing(uint32_t id, MaybeUninit<CBox<void>> *ok_out);\n\n} // extern \"C\"\n")
    gnames = []
    for inst in model.insts:
        if inst.kind == "group" and inst.name not in gnames:
            gnames.append(inst.name)
    for g in gnames:
        mand, opt = model.groups[g]
        ts = sorted(mand) + sorted(opt)
        add(f"template<typename CGlueInst, typename CGlueCtx>\nstruct {g}Container {{\n    CGlueInst instance;\n    CGlueCtx context;\n" + "".join(f"    {t}RetTmp<CGlueCtx> ret_tmp_{t.lower()};\n" for t in ts) + "};\n")
    for (n, body) in model.user_structs:
        add(f"struct {n} {{\n{body}}};\n")
    if uses_slice:
        add(DOC_CSLICEREF + "template<typename T>\nstruct CSliceRef {\n    const T *data;\n    uintptr_t len;\n};\n")
    if uses_duo:
        add("template<typename A, typename B>\nstruct Duo {\n    A a;\n    B b;\n};\n")
    if uses_cb:
        add("template<typename T, typename F>\nstruct Callback {\n    T *context;\n    bool (*func)(T*, F);\n};\n")
        add("template<typename T>\nusing OpaqueCallback = Callback<void, T>;\n")
    for t in used_traits:
        add(doc_vtbl(t) + f"template<typename CGlueC>\nstruct {t}Vtbl {{\n" + "".join(render_method_cpp(model, me) for me in model.traits[t].methods) + "};\n")
    for g in gnames:
        mand, opt = model.groups[g]
        ts = sorted(mand) + sorted(opt)
        add(doc_group(g, ts) + f"template<typename CGlueInst, typename CGlueCtx>\nstruct {g} {{\n" + "".join(f"    const {t}Vtbl<{g}Container<CGlueInst, CGlueCtx>> *vtbl_{t.lower()};\n" for t in ts) + f"    {g}Container<CGlueInst, CGlueCtx> container;\n}};\n")
    if has_obj:
        add(DOC_CONTAINER + "template<typename T, typename C, typename R>\nstruct CGlueObjContainer {\n    T instance;\n    C context;\n    R ret_tmp;\n};\n")
        add(DOC_OBJ + "template<typename T, typename V, typename C, typename R>\nstruct CGlueTraitObj {\n    const V *vtbl;\n    CGlueObjContainer<T, C, R> container;\n};\n")
    seen_base = set()
    ptr = {"Box": "CBox<CGlueT>", "Mut": "CGlueT *", "Ref": "const CGlueT *"}
    for inst in model.insts:
        if inst.ctx != "Arc":
            continue   # (how cbindgen spells the no-context marker type in C++ is not modelled; such objects are instantiated directly)
        n, c = inst.name, inst.cont
        if inst.kind == "obj":
            if n not in seen_base:
                seen_base.add(n)
                add(f"/**\n * Base CGlue trait object for trait {n}.\n */\ntemplate<typename CGlueInst, typename CGlueCtx>\nusing {n}Base = CGlueTraitObj<CGlueInst, {n}Vtbl<CGlueObjContainer<CGlueInst, CGlueCtx, {n}RetTmp<CGlueCtx>>>, CGlueCtx, {n}RetTmp<CGlueCtx>>;\n")
            base = f"{n}Base<{ptr[c]}, CGlueCtx>"
        else:
            base = f"{n}<{ptr[c]}, CGlueCtx>"
        if (n, c) in seen_base:
            continue
        seen_base.add((n, c))
        add(f"/**\n * Ctx{c} CGlue trait object for trait {n} with context.\n */\ntemplate<typename CGlueT, typename CGlueCtx>\nusing {n}BaseCtx{c} = {base};\n")
        add(f"/**\n * {c} CGlue trait object for trait {n} with a [`CArc`](cglue::arc::CArc) reference counted context.\n */\ntemplate<typename CGlueT, typename CGlueC>\nusing {n}BaseArc{c} = {n}BaseCtx{c}<CGlueT, CArc<CGlueC>>;\n")
        add(f"/**\n * Opaque {c} CGlue trait object for trait {n} with a [`CArc`](cglue::arc::CArc) reference counted context.\n */\nusing {n}Arc{c} = {n}BaseArc{c}<void, void>;\n")
    n = len(items)
    all_items = list(items)
    for (frac, txt) in sorted(model.foreign):
        all_items.append((frac * n + 0.5, txt))
    all_items.sort(key=lambda p: p[0])
    body = "\n".join(t for (_, t) in all_items)
    foreign_texts = [t for (_, t) in all_items if any(t == f[1] for f in model.foreign)]
    funcs = []
    for inst in [i for i in model.insts if i.ctx == "Arc"][:3]:
        a = cpp_alias(inst)
        if model.cpp_maybe_uninit:
            funcs.append(f"int32_t make_{a.lower()}(MaybeUninit<{a}> *ok_out);\n")
        else:
            funcs.append(f"int32_t make_{a.lower()}({a} *ok_out);\n")
    funcs.append("uint32_t user_function(uint32_t x);\n")
    # (the tool rewrites `MaybeUninit<T>` to `T` everywhere, also in the user's functions: documented)
    foreign_texts += [f for f in funcs if "MaybeUninit" not in f]
    ext = "extern \"C\" {\n\n" + "\n".join(funcs) + "\n} // extern \"C\"\n"
    head, tail, pf = preamble_parts(model)
    return head + INCLUDES_CPP + body + "\n" + ext + tail, pf + foreign_texts


FOREIGN_POOL_CPP = [
    # text outside ASCII (doc comments, string macros): kept byte for byte
    "/**\n * Gr\u00f6\u00dfe in \u00b5m \u2014 \u00a9 M\u00fcller, \u65e5\u672c\u8a9e\n */\nstruct UserMetric {\n    double um;\n};\n",
    "#define USER_VENDOR \"M\u00fcller & S\u00f8n \u2122\"\n",
    "struct UserThing {\n    int32_t x;\n    int32_t y;\n};\n",
    "using UserHandle = uint32_t;\n",
    "struct MyVtblHolder {\n    const void *p;\n};\n",
    "struct ContextInfo {\n    uint8_t kind;\n};\n",
    "struct SomeRetTmpLike {\n    uint64_t v;\n};\n",
    "struct UserContainerStats {\n    uintptr_t n;\n};\n",
    "enum class UserMode : uint8_t {\n    Fast,\n    Slow,\n};\n",
    "/**\n * A user documented type.\n */\nstruct CGlueXUser {\n    double d;\n};\n",
    "template<typename T>\nstruct UserWrap {\n    T *p;\n    uintptr_t n;\n};\n",
    "constexpr static const uint32_t USER_LIMIT = 16;\n",
    "struct UserOps;\n\nstruct UserOpsVtbl {\n    int32_t (*open)(const UserOps *cont, uint32_t flags);\n    void (*close)(UserOps *cont);\n};\n",
    "template<typename CGlueC>\nstruct UserGenericVtbl {\n    uint32_t (*get)(const CGlueC *cont);\n};\n",
    "struct UserSlot {\n    uint32_t ret_tmp;\n    uint8_t context;\n    void *instance;\n};\n",
    "using UserCallbackFn = int32_t(*)(void *context, const uint8_t *data, uintptr_t len);\n",
]


def gen_model_cpp(rng):
    """the C model space, with the foreign declarations in their C++ spelling"""
    m = gen_model(rng, foreign=False)
    m.mode = "C++"
    for t in m.traits.values():
        t.rettmp_sized = False   # (sized RetTmp fields in C++ containers are not modelled)
    for txt in rng.sample(FOREIGN_POOL_CPP, rng.randint(0, 5)):
        m.foreign.append((rng.random(), txt))
    # argument types that nest templates two deep (a slice of slices), as cbindgen prints them
    for t in m.traits.values():
        for me in t.methods:
            me.args = [(("struct CSliceRef_CSliceRef_u8", n, "slice2") if (k == "slice" and rng.random() < 0.5) else (ty, n, k)) for (ty, n, k) in me.args]
            # .. and with a comma behind the inner template (a two-parameter user template over a slice)
            me.args = [(("struct Duo_CSliceRef_u8_u32", n, "duo") if (k == "pair" and rng.random() < 0.5) else (ty, n, k)) for (ty, n, k) in me.args]
    # consuming methods that return the object itself (`fn with(self, ..) -> Self`): the container
    # moves through the entry into the returned object
    for t in m.traits.values():
        for me in t.methods:
            if me.ret[1] == "self" and rng.random() < 0.5:
                me.recv = "own"
    m.cpp_maybe_uninit = rng.random() < 0.85
    m.cpp_out_fn = m.cpp_maybe_uninit and rng.random() < 0.6
    m.config = {k: v for k, v in m.config.items() if k != "function_prefix"}   # (C only)
    return m


# ---- execution oracle (C++) ----------------------------------------------------------------------

def cpp_cont_type(model, inst):
    I, X = CPP_INST[inst.cont], CPP_CTX[inst.ctx]
    if inst.kind == "obj":
        return f"CGlueObjContainer<{I}, {X}, {inst.name}RetTmp<{X}>>"
    return f"{inst.name}Container<{I}, {X}>"


def cpp_obj_type(model, inst):
    I, X = CPP_INST[inst.cont], CPP_CTX[inst.ctx]
    if inst.kind == "obj":
        return f"CGlueTraitObj<{I}, {inst.name}Vtbl<{cpp_cont_type(model, inst)}>, {X}, {inst.name}RetTmp<{X}>>"
    return f"{inst.name}<{I}, {X}>"


def cpp_arg_value(model, ctype, kind, k):
    if kind == "scalar":
        return ARGV[ctype](k)
    if kind == "pair":
        return f"Pair{{ {7 + k}u, 0x998877665544{k:02x}ull }}"
    if kind == "slice":
        return f"mk_slice(g_buf + {k}, {3 + k})"
    if kind == "slice2":
        return f"mk_slice2(g_buf + {k}, {3 + k})"
    if kind == "duo":
        return f"mk_duo(g_buf + {k}, {3 + k})"
    if kind == "ptr":
        return f"&g_words[{k}]"
    if kind == "callback":
        return f"mk_cb(&g_words[{k}])"
    raise ValueError(kind)


def cpp_driver(model, out_text):
    """C++ translation unit: every object type instantiated with mock vtables, every member wrapper called"""
    L = ['#include "out.hpp"', "#include <cstdio>", "#include <cstring>", "#include <utility>", ""]
    L.append("static uint8_t g_buf[64]; static uint32_t g_words[16];")
    L.append("enum { EV_SLOT = 1, EV_BOXDROP, EV_CTXCLONE, EV_CTXDROP };")
    L.append("static int g_ev[64]; static int g_evid[64]; static int g_nev; static const void *g_cont; static int g_args_ok; static int g_inst_ok;")
    L.append("static void ev(int k, int id) { if (g_nev < 64) { g_ev[g_nev] = k; g_evid[g_nev] = id; g_nev++; } }")
    L.append("static int g_inst_marker; static int g_ctx_marker;")
    L.append("static void mock_box_drop(void *p) { ev(EV_BOXDROP, p == (void *)&g_inst_marker); }")
    L.append("static const void *mock_arc_clone(const void *p) { ev(EV_CTXCLONE, p == (const void *)&g_ctx_marker); return p; }")
    L.append("static void mock_arc_drop(const void *p) { ev(EV_CTXDROP, p == (const void *)&g_ctx_marker); }")
    uses_cb = any(k == "callback" for t in model.traits.values() for me in t.methods for (_, _, k) in me.args)
    uses_slice = "struct CSliceRef" in out_text
    cbp = "Pair" if model.cb_payload == "Pair" else "uint32_t"
    if uses_cb and "struct Callback" in out_text:
        L.append(f"static bool mock_cb(void *c, {cbp} p) {{ (void)c; (void)p; return true; }}")
        L.append(f"static OpaqueCallback<{cbp}> mk_cb(void *c) {{ OpaqueCallback<{cbp}> r; r.context = c; r.func = mock_cb; return r; }}")
    if uses_slice:
        L.append("static CSliceRef<uint8_t> mk_slice(const uint8_t *p, uintptr_t n) { CSliceRef<uint8_t> r; r.data = p; r.len = n; return r; }")
        if "struct Duo" in out_text:
            L.append("static Duo<CSliceRef<uint8_t>, uint32_t> mk_duo(const uint8_t *p, uintptr_t n) { Duo<CSliceRef<uint8_t>, uint32_t> r; r.a.data = p; r.a.len = n; r.b = 0xD00u + (uint32_t)n; return r; }")
        L.append("static CSliceRef<CSliceRef<uint8_t>> mk_slice2(const uint8_t *p, uintptr_t n) { CSliceRef<CSliceRef<uint8_t>> r; r.data = (const CSliceRef<uint8_t> *)p; r.len = n; return r; }")
    L.append("static void poison_stack(void) { volatile unsigned char junk[4096]; memset((void *)junk, 0xAB, sizeof(junk)); }")

    def a_check(ctype, kind, name, k):
        if kind == "scalar":
            return f"({name} == {ARGV[ctype](k)})"
        if kind == "pair":
            return f"({name}.a == {7 + k}u && {name}.b == 0x998877665544{k:02x}ull)"
        if kind == "slice":
            return f"({name}.data == g_buf + {k} && {name}.len == {3 + k})"
        if kind == "duo":
            return f"({name}.a.data == g_buf + {k} && {name}.a.len == {3 + k} && {name}.b == 0xD00u + {3 + k})"
        if kind == "slice2":
            return f"((const void *){name}.data == (const void *)(g_buf + {k}) && {name}.len == {3 + k})"
        if kind == "ptr":
            return f"({name} == &g_words[{k}])"
        if kind == "callback":
            return f"({name}.context == (void *)&g_words[{k}] && {name}.func == mock_cb)"

    sid = 0
    slots, plan = {}, []
    for ii, inst in enumerate(model.insts):
        cn = cpp_cont_type(model, inst)
        L.append(f"typedef {cn} Cont{ii};")
        L.append(f"typedef {cpp_obj_type(model, inst)} Obj{ii};")
        for t in inst_traits(model, inst):
            for me in model.traits[t].methods:
                sid += 1
                slots[(ii, t, me.name)] = sid
                cont_arg = {"const": f"const Cont{ii} *cont", "mut": f"Cont{ii} *cont", "own": f"Cont{ii} cont"}[me.recv]
                args = "".join(f", {cpp_type(model, ty)}{'' if ty.endswith('*') else ' '}{n}" for (ty, n, _) in me.args)
                ret = f"Cont{ii}" if me.ret[1] == "self" else cpp_type(model, me.ret[0])
                checks = " && ".join([a_check(ty, k, n, j) for j, (ty, n, k) in enumerate(me.args)] or ["1"])
                body = [f"static {ret} mock_{ii}_{t}_{me.name}({cont_arg}{args}) {{", f"    ev(EV_SLOT, {sid});"]
                if me.recv == "own" and me.ret[1] == "self":
                    # the consumed container lives on in the returned object: nothing is released here
                    inst_ptr = {"Box": "cont.instance.instance", "Mut": "cont.instance", "Ref": "cont.instance"}[inst.cont]
                    body.append(f"    g_inst_ok = ((const void *){inst_ptr} == (const void *)&g_inst_marker); g_cont = 0;")
                elif me.recv == "own":
                    inst_ptr = {"Box": "cont.instance.instance", "Mut": "cont.instance", "Ref": "cont.instance"}[inst.cont]
                    body.append(f"    g_inst_ok = ((const void *){inst_ptr} == (const void *)&g_inst_marker); g_cont = 0;")
                    if inst.cont == "Box":
                        body.append("    if (cont.instance.drop_fn) cont.instance.drop_fn(cont.instance.instance);")
                    if inst.ctx == "Arc":
                        body.append("    if (cont.context.drop_fn) cont.context.drop_fn(cont.context.instance);")
                else:
                    body.append("    g_cont = (const void *)cont; g_inst_ok = 1;")
                body.append(f"    g_args_ok = ({checks});")
                if me.ret[1] == "self" and me.recv == "own":
                    body.append("    return cont;")
                elif me.ret[1] == "self":
                    body.append(f"    Cont{ii} r = *cont; return r;")
                elif me.ret[1] == "scalar":
                    body.append(f"    return {ARGV[me.ret[0]](sid % 200)};")
                elif me.ret[1] == "pair":
                    body.append(f"    return Pair{{ {900 + sid}u, {sid}ull }};")
                elif me.ret[1] == "slice":
                    body.append(f"    return mk_slice(g_buf + 1, {sid + 1});")
                body.append("}")
                L += body
            L.append(f"static const {t}Vtbl<Cont{ii}> vt_{ii}_{t} = {{ " + ", ".join(f"&mock_{ii}_{t}_{me.name}" for me in model.traits[t].methods) + " };")
    L.append("")
    L.append("#define RESET() do { g_nev = 0; g_cont = 0; g_args_ok = -1; g_inst_ok = -1; poison_stack(); } while (0)")
    L.append("static void report(const char *tag, int inst, const char *trait, const char *meth, const char *wrapper, int want_sid, const void *want_cont, int ret_ok, int vt_ok) {")
    L.append('    int slots = 0, sid = -1, bd = 0, cc = 0, cd = 0, cdo = 0, cdc = 0, order_ok = 1, seen_slot = 0, i;')
    L.append("    for (i = 0; i < g_nev; i++) { if (g_ev[i] == EV_SLOT) { slots++; sid = g_evid[i]; seen_slot = 1; } if (g_ev[i] == EV_BOXDROP) bd++; if (g_ev[i] == EV_CTXCLONE) { cc++; if (seen_slot) order_ok = 0; } if (g_ev[i] == EV_CTXDROP) { cd++; if (g_evid[i] == 1) cdo++; if (g_evid[i] == 2) cdc++; } }")
    L.append("    if (g_nev > 0 && cc > 0 && g_ev[g_nev - 1] != EV_CTXDROP) order_ok = 0;")
    L.append('    printf("%s inst=%d trait=%s meth=%s wrapper=%s slots=%d sid=%d want=%d cont_ok=%d inst_ok=%d args_ok=%d ret_ok=%d vt_ok=%d boxdrops=%d ctxclones=%d ctxdrops=%d ctxdrops_orig=%d ctxdrops_clone=%d order_ok=%d\\n", tag, inst, trait, meth, wrapper, slots, sid, want_sid, want_cont ? (g_cont == want_cont) : 1, g_inst_ok, g_args_ok, ret_ok, vt_ok, bd, cc, cd, cdo, cdc, order_ok);')
    L.append("    fflush(stdout);")
    L.append("}")
    for ii, inst in enumerate(model.insts):
        traits = inst_traits(model, inst)
        b = [f"static void build_{ii}(Obj{ii} &o) {{"]
        if inst.kind == "obj":
            b.append(f"    o.vtbl = &vt_{ii}_{traits[0]};")
        else:
            for t in traits:
                b.append(f"    o.vtbl_{t.lower()} = &vt_{ii}_{t};")
        if inst.cont == "Box":
            b.append("    o.container.instance.instance = &g_inst_marker; o.container.instance.drop_fn = mock_box_drop;")
        else:
            b.append("    o.container.instance = &g_inst_marker;")
        if inst.ctx == "Arc":
            b.append("    o.container.context.instance = &g_ctx_marker; o.container.context.clone_fn = mock_arc_clone; o.container.context.drop_fn = mock_arc_drop;")
        b.append("}")
        L += b
    L.append("int main(void) {")
    L.append("    int i; for (i = 0; i < 64; i++) g_buf[i] = (uint8_t)i;")
    for ii, inst in enumerate(model.insts):
        traits = inst_traits(model, inst)
        for t in traits:
            for me in model.traits[t].methods:
                want = slots[(ii, t, me.name)]
                shared = inst.kind == "group" and len([x for x in traits if any(y.name == me.name for y in model.traits[x].methods)]) > 1
                # documented naming: the method's name; prefixed with the trait's name when two traits of a group share it
                wname = f"{t.lower()}_{me.name}" if shared else me.name
                plan.append({"inst": ii, "trait": t, "meth": me.name, "recv": me.recv, "ret": me.ret[1], "cands": [wname], "sid": want, "shared_name": shared})
                args = ", ".join(cpp_arg_value(model, ty, k, j) for j, (ty, n, k) in enumerate(me.args))
                own = me.recv == "own"
                L.append("    {")
                if own:
                    # the moved-from object goes out of scope before the events are counted: its
                    # destructor must find nothing left to release
                    L.append("        int ret_ok_ = 1, vt_ok_ = 1;")
                    L.append("        {")
                L.append(f"        Obj{ii} o; build_{ii}(o);")
                L.append("        RESET();")
                recv = "std::move(o)" if me.recv == "own" else ("const_cast<const Obj%d &>(o)" % ii if me.recv == "const" else "o")
                call = f"{recv}.{wname}({args})"
                want_cont = "0" if me.recv == "own" else "&o.container"
                if me.ret[1] == "void" and own:
                    L.append(f"        {call};")
                    L.append("        }")
                    L.append(f'        report("CALL", {ii}, "{t}", "{me.name}", "{wname}", {want}, {want_cont}, 1, 1);')
                elif me.ret[1] == "void":
                    L.append(f"        {call};")
                    L.append(f'        report("CALL", {ii}, "{t}", "{me.name}", "{wname}", {want}, {want_cont}, 1, 1);')
                elif me.ret[1] == "self" and own:
                    # the returned object is used up (destructed) first, then the moved-from source
                    # goes out of scope: instance and context are released once over all of it
                    if inst.kind == "obj":
                        vt = f"(r.vtbl == &vt_{ii}_{traits[0]})"
                    else:
                        vt = "(" + " && ".join(f"r.vtbl_{x.lower()} == &vt_{ii}_{x}" for x in traits) + ")"
                    inst_ptr = {"Box": "r.container.instance.instance", "Mut": "r.container.instance", "Ref": "r.container.instance"}[inst.cont]
                    L.append("        {")
                    L.append(f"        Obj{ii} r = {call};")
                    L.append(f"        vt_ok_ = {vt}; ret_ok_ = ((const void *){inst_ptr} == (const void *)&g_inst_marker);")
                    L.append("        }")
                    L.append("        }")
                    L.append(f'        report("CALL", {ii}, "{t}", "{me.name}", "{wname}", {want}, {want_cont}, ret_ok_, vt_ok_);')
                elif me.ret[1] == "self":
                    L.append(f"        Obj{ii} r = {call};")
                    if inst.kind == "obj":
                        vt = "(r.vtbl == o.vtbl)"
                    else:
                        vt = "(" + " && ".join(f"r.vtbl_{x.lower()} == o.vtbl_{x.lower()}" for x in traits) + ")"
                    L.append("        int ret_ok = (memcmp(&r.container, &o.container, sizeof(o.container)) == 0);")
                    L.append(f'        report("CALL", {ii}, "{t}", "{me.name}", "{wname}", {want}, {want_cont}, ret_ok, {vt});')
                    L.append("        r.container.forget();")
                else:
                    rt = cpp_type(model, me.ret[0])
                    L.append(f"        {rt} r = {call};")
                    if me.ret[1] == "scalar":
                        rc = f"(r == {ARGV[me.ret[0]](want % 200)})"
                    elif me.ret[1] == "pair":
                        rc = f"(r.a == {900 + want}u && r.b == {want}ull)"
                    else:
                        rc = f"(r.data == g_buf + 1 && r.len == {want + 1})"
                    if own:
                        L.append(f"        ret_ok_ = {rc};")
                        L.append("        }")
                        L.append(f'        report("CALL", {ii}, "{t}", "{me.name}", "{wname}", {want}, {want_cont}, ret_ok_, 1);')
                    else:
                        L.append(f'        report("CALL", {ii}, "{t}", "{me.name}", "{wname}", {want}, {want_cont}, {rc}, 1);')
                if not own:
                    L.append("        o.container.forget();")
                L.append("    }")
        # the generated drop helper of a C++ object is its destructor
        plan.append({"inst": ii, "trait": inst.name, "meth": "drop", "recv": "own", "ret": "void", "cands": ["~"], "sid": 0, "drop": True})
        L.append("    {")
        L.append("        RESET();")
        L.append(f"        {{ Obj{ii} o; build_{ii}(o); }}")
        L.append(f'        report("DROP", {ii}, "{inst.name}", "drop", "destructor", 0, 0, 1, 1);')
        L.append("    }")
    L.append("    return 0;")
    L.append("}")
    return "\n".join(L) + "\n", plan
