"""Property id -> function that runs its engine(s) and fills a common.Run."""
import shutil, os, json
import common
from common import Infra


def build_rtprops(release=False):
    ok, out = common.cargo_build("rtprops", release=release)
    if not ok:
        # The harness uses only public API of cglue; if it does not build, the tree under test
        # does not offer that API any more -> inconclusive, never a violation.
        raise Infra("rtprops does not build against the current tree:\n" + out[-4000:])
    return common.bin_path("rtprops", release=release)


FUZZ_TARGETS = {"C06": ["lifecycle"], "C10": ["carc_ops"], "C11": ["cvec_ops"], "C12": ["slices_utf8"], "C13": ["int_result", "int_result_gen"], "C14": ["reprcstring"],
                "C15": ["callback_iter"], "C16": ["layout_views"], "C19": ["waker_ops"]}


def fuzz_part(run, rtbin):
    """thorough tier: coverage-guided campaigns (libFuzzer + AddressSanitizer) over the same checks"""
    import shutil, re as _re
    targets = FUZZ_TARGETS.get(run.prop, [])
    if not targets or run.replay:
        return
    r = common.sh(["cargo", "+nightly", "fuzz", "build"] + targets, cwd=common.HARNESS, timeout=3000)
    if r.returncode != 0:
        run.inconclusive.append("fuzz targets do not build (nightly + ASan): " + (r.stdout or "")[-400:])
        return
    for t in targets:
        exe = os.path.join(common.TARGET, "x86_64-unknown-linux-gnu", "release", t)
        wd = os.path.join(common.WORK, f"fuzz-{t}-{os.getpid()}")
        shutil.rmtree(wd, ignore_errors=True)
        os.makedirs(os.path.join(wd, "corpus"))
        runs = int(os.environ.get("VERIF_FUZZ_RUNS", "400000" if t != "waker_ops" else "60000"))
        env = dict(common.ENV); env["VERIF_FUZZ_OUT"] = wd
        try:
            rr = common.sh([exe, "corpus", f"-runs={runs}", f"-seed={run.seed + 1}", "-max_len=600", "-len_control=0", "-artifact_prefix=" + wd + "/"], cwd=wd, timeout=3000, env=env)
        except Infra as e:
            run.inconclusive.append(f"fuzz campaign {t}: {e}")
            continue
        out = rr.stdout or ""
        m = _re.findall(r"#(\d+)\s+DONE\s+cov: (\d+) ft: (\d+) corp: (\d+)", out)
        viol = []
        done, corp = (int(m[-1][0]), int(m[-1][3])) if m else (0, 0)
        if rr.returncode != 0:
            reps = [f for f in os.listdir(wd) if f.startswith(run.prop + "-fuzz-") and f.endswith(".json")]
            if reps:
                body = json.load(open(os.path.join(wd, reps[0])))
                viol.append({"sub": body["sub"], "key": body["key"], "what": "[found by the libFuzzer campaign] " + body["what"], "case": body["case"]})
            else:
                arts = [f for f in os.listdir(wd) if f.startswith("crash-") or f.startswith("leak-") or f.startswith("oom-")]
                case, sub = None, "fuzz"
                if arts:
                    d = common.sh([rtbin, "--decode-fuzz", t, os.path.join(wd, arts[0])], timeout=60)
                    try:
                        j = json.loads((d.stdout or "").strip().splitlines()[-1]); case, sub = j["case"], j["sub"]
                    except Exception:
                        pass
                san = _re.search(r"ERROR: AddressSanitizer: ([\w-]+)", out)
                viol.append({"sub": sub, "key": "sanitizer:" + (san.group(1) if san else "crash"), "what": "libFuzzer target " + t + " died: " + out[-600:], "case": case})
        run.add_result({"_label": "fuzz:" + t, "evaluations": done, "distinct_nontrivial": corp, "violations": viol, "known_seen": {}, "samples": [], "classes": {f"fuzz:{t}:executions": done, f"fuzz:{t}:corpus": corp},
                        "rule": f"libFuzzer (coverage-guided, AddressSanitizer) campaign of {runs} executions from an empty corpus over the same check: bytes are decoded structurally into the check's case type (serde-based decoder), the oracle runs inside the target; distinct_nontrivial for this part = inputs libFuzzer kept because they reached new coverage"})
        shutil.rmtree(wd, ignore_errors=True)


ALT_TARGET = os.path.join(common.TARGET, "alt")


ALT_STD_TARGET = os.path.join(common.TARGET, "alt-std")


def build_rtprops_alt_std():
    """as build_rtprops_alt, but the library keeps its `std` feature (C13: io::Error codes exist only there)"""
    ok, out = common.cargo_build("rtprops", release=True, extra=["--no-default-features", "--features", "altcfg-std"], target_dir=ALT_STD_TARGET)
    if not ok:
        raise Infra("rtprops (alternative configuration with std) does not build against the current tree:\n" + out[-4000:])
    return common.bin_path("rtprops", release=True, target_dir=ALT_STD_TARGET)


def build_rtprops_alt(release=False):
    """the same harness against the library in another configuration: without its `std` feature,
    with the `log` feature and a trace-level logger that formats every record, built with the
    release profile (optimised, debug assertions off)"""
    ok, out = common.cargo_build("rtprops", release=release, extra=["--no-default-features", "--features", "altcfg"], target_dir=ALT_TARGET)
    if not ok:
        raise Infra("rtprops (alternative configuration) does not build against the current tree:\n" + out[-4000:])
    return common.bin_path("rtprops", release=release, target_dir=ALT_TARGET)


def rt(run):
    b = build_rtprops(release=(run.tier == "thorough"))
    if not run.replay:
        # regression tier: saved minimal cases of earlier findings, replayed without any RNG
        for f in common.saved_replays(run.prop):
            run.run_harness(b, timeout=300, label="regression:" + os.path.basename(f), replay_file=f)
    # (quick runs take seconds; a harness that spins - only ever seen on deliberately broken trees -
    # is cut off and reported as inconclusive)
    t_main = 1500 if run.tier == "quick" else 7200
    run.run_harness(b, timeout=t_main)
    if run.prop == "C13":
        # (C13's subject, the integer coding of io::Error, only exists with the `std` feature:
        # its second configuration keeps `std` and adds `log` at trace level, release profile)
        b2 = build_rtprops_alt_std()
        run.tier_override = "quick"
        try:
            run.run_harness(b2, timeout=1500, label="altcfg-std-rtprops")
        except Infra:
            if not any(r.get("violations") for r in run.results):
                raise
        finally:
            run.tier_override = None
        run.assumptions.append("second pass over the quick-tier case set with the library built with `log` enabled at trace level, in the release profile")
    if run.prop != "C13":
        # always the release profile (debug assertions off): the default-configuration binary of
        # the quick tier is a debug build, so both kinds of build are exercised on every change
        b2 = build_rtprops_alt(release=True)
        run.tier_override = "quick"
        try:
            run.run_harness(b2, timeout=1500, label="altcfg-rtprops")
        except Infra:
            # a violation already found by the first pass stands; only without one is the run inconclusive
            if not any(r.get("violations") for r in run.results):
                raise
        finally:
            run.tier_override = None
        run.assumptions.append("second pass over the quick-tier case set with the library built without its `std` feature, with `log` enabled at trace level, in the release profile (debug assertions off)")
    if run.tier == "thorough":
        fuzz_part(run, b)


# ---------------------------------------------------------------------------------------------
# program batches (generated traits compiled against the current tree)

import batch as _batch
import cargo_diag as _diag

PB_TARGET = os.path.join(common.TARGET, "pb")


def pb_params(tier, seed):
    if tier == "quick":
        return [dict(idx=0, n=int(os.environ.get("VERIF_PB_TRAITS", "20")), cases=int(os.environ.get("VERIF_PB_CASES", "150")), release=False)]
    return [dict(idx=i, n=48, cases=1500, release=(i == 5)) for i in range(6)]


def build_batch(run, seed, p):
    """Generate + build one batch; modules the current tree rejects are dropped and counted."""
    name = f"pb-{run.tier}-{p['idx']}"
    exclude, lite, rejected = set(), set(), {}
    for attempt in range(8):
        d, traits, desc = _batch.make_batch(seed * 16 + p["idx"], p["n"], name, exclude=exclude, lite=lite)
        ok, exe, errs, tail = _diag.build(d, PB_TARGET, release=p["release"], timeout=3000)
        if ok:
            fc = {}
            for (m, t) in traits:
                if m in exclude:
                    continue
                for f in t.features():
                    fc["trait:" + f] = fc.get("trait:" + f, 0) + 1
            for gm, g in desc.items():
                if isinstance(g, dict) and "group" in g and gm not in exclude:
                    fc["groups"] = fc.get("groups", 0) + 1
                    if any("=" in o for o in g.get("optional", [])):
                        fc["group:aliased-member"] = fc.get("group:aliased-member", 0) + 1
                    if any("<" in o for o in g.get("optional", []) + g.get("mandatory", [])):
                        fc["group:generic-member"] = fc.get("group:generic-member", 0) + 1
            run._last_features = fc
            return exe, desc, rejected, d
        bad = set()
        for f, msgs in errs.items():
            base = os.path.basename(f or "")
            if base[:1] in ("m", "g", "h") and base.endswith(".rs") and base[1:-3].isdigit():
                bad.add(base[:-3])
                rejected[base[:-3]] = msgs[:2]
            else:
                raise Infra(f"program batch does not build (not attributable to a generated definition): {f}: {msgs[:3]}\n{tail[-1500:]}")
        if not bad:
            raise Infra("program batch does not build:\n" + tail[-3000:])
        # a trait module is first retried without the by-name vtable getters, then dropped
        retry = {b for b in bad if b.startswith("m") and b not in lite}
        lite |= retry
        exclude |= bad - retry
    raise Infra("program batch still does not build after dropping rejected modules")


def _single_module(run, seed, p, module, drop, tag):
    """build the one-module (possibly reduced) crate of a batch; returns (exe | None, full trait, reduced trait)"""
    name = f"pb-shrink-{tag}"
    for lite in (False, True):
        d, full, red = _batch.make_single(seed * 16 + p["idx"], p["n"], name, module, drop=drop, lite=lite)
        ok, exe, errs, tail = _diag.build(d, PB_TARGET, release=False, timeout=1200)
        if ok:
            return exe, full, red
    return None, full, red


def shrink_program(run, seed, p, res):
    """Structural shrinking: for a violation inside a generated trait module, delete methods of
    that trait one at a time (operation selectors keep their meaning) as long as the same
    violation key reproduces on the recorded case; the replay file then names the reduced program."""
    import emit as _emit
    for v in res.get("violations", []):
        sub = v.get("sub", "")
        mod = sub.split(":")[0]
        if not (mod[:1] == "m" and mod[1:].isdigit()) or v.get("key") == "crash" or not v.get("case"):
            continue
        tmp = os.path.join(common.WORK, f"shrink-{run.prop}-{os.getpid()}.json")
        json.dump({"property": run.prop, "sub": sub, "case": v["case"]}, open(tmp, "w"))

        def reproduces(drop):
            exe, full, red = _single_module(run, seed, p, mod, drop, str(os.getpid()))
            if exe is None:
                return False, full, red
            out = tmp + ".out"
            if os.path.exists(out):
                os.remove(out)
            cmd = run._harness_cmd(exe, out, ["--cases", "1"], replay=tmp)
            try:
                common.sh(cmd, timeout=300)
            except Infra:
                return False, full, red
            if not os.path.exists(out):
                return False, full, red
            r = json.load(open(out)); os.remove(out)
            return any(x.get("key") == v.get("key") for x in r.get("violations", [])), full, red

        try:
            ok, full, red = reproduces([])
            if not ok:
                continue   # does not reproduce in isolation: keep the full batch as the replay unit
            drop = []
            for m in full.methods:
                ok2, _, red2 = reproduces(drop + [m.idx])
                if ok2:
                    drop.append(m.idx)
                    red = red2
            res.setdefault("_shrunk", {})[sub + "|" + v.get("key", "")] = {"only": mod, "drop": drop}
            v["program"] = _emit.trait_def(red)
            v["what"] = v.get("what", "") + f" [program reduced to {len(red.methods)} of {len(full.methods)} methods: " + " ".join(_emit.trait_def(red).split()) + "]"
        finally:
            if os.path.exists(tmp):
                os.remove(tmp)
            shutil.rmtree(os.path.join(common.WORK, f"pb-shrink-{os.getpid()}"), ignore_errors=True)


def progbatch(run, extra_args=None):
    seed = run.seed
    params = pb_params(run.tier, seed)
    if run.replay:
        body = json.load(open(run.replay))
        ep = body.get("engine_params") or {}
        if ep:
            run.tier_for_batch = ep.get("tier", run.tier)
            seed = ep.get("seed", seed)
            params = [q for q in pb_params(ep.get("tier", run.tier), seed) if q["idx"] == ep.get("idx", 0)]
            sh_ = (ep.get("shrunk") or {}).get(body.get("sub", "") + "|" + body.get("key", ""))
            if sh_ and params:
                # the reduced one-module program named by the replay file
                exe, full, red = _single_module(run, seed, params[0], sh_["only"], sh_["drop"], "replay-" + str(os.getpid()))
                if exe is None:
                    raise Infra("the reduced program of the replay file does not build against the current tree")
                res = run.run_harness(exe, args=["--cases", "1"], timeout=600, label="reduced-program")
                res["_params"] = ep
                shutil.rmtree(os.path.join(common.WORK, "pb-shrink-replay-" + str(os.getpid())), ignore_errors=True)
                return
    total_rejected = {}
    feat = {}
    for p in params:
        exe, desc, rejected, d = build_batch(run, seed, p)
        for f, n in (getattr(run, "_last_features", None) or {}).items():
            feat[f] = feat.get(f, 0) + n
        for m, msgs in rejected.items():
            total_rejected[f"batch{p['idx']}/{m}"] = {"definition": desc.get(m), "rustc": msgs}
        args = ["--cases", str(p["cases"])] + (extra_args or [])
        res = run.run_harness(exe, args=args, timeout=3600, label=f"batch{p['idx']}")
        res["_params"] = {"tier": run.tier if not run.replay else getattr(run, "tier_for_batch", run.tier), "seed": seed, "idx": p["idx"]}
        if not run.replay and res.get("violations"):
            try:
                shrink_program(run, seed, p, res)
            except Exception as e:   # shrinking is a convenience: never let it mask the finding
                res.setdefault("notes", []).append(f"structural shrinking failed: {e}")
            if res.get("_shrunk"):
                res["_params"]["shrunk"] = res["_shrunk"]
        # a few generated definitions as samples
        if not run.replay:
            run.extra_cov.setdefault("sample_definitions", [])
            for m in list(desc)[:2]:
                run.extra_cov["sample_definitions"].append(desc[m])
    run.extra_cov["grammar_features"] = dict(sorted(feat.items()))
    run.extra_cov["compile_rejected"] = len(total_rejected)
    if total_rejected:
        run.extra_cov["compile_rejected_detail"] = dict(list(total_rejected.items())[:5])
        import sys as _sys
        print(f"NOTE property={run.prop} {len(total_rejected)} generated definitions were rejected at compile time by the current tree and left out: {sorted(total_rejected)[:6]} (details in the evidence file)", file=_sys.stderr)


def build_expander(features=None):
    ok, out = common.cargo_build("expander", features=features)
    if not ok:
        raise Infra("expander does not build against the current tree's cglue-gen:\n" + out[-3000:])
    return common.bin_path("expander")


K_C03_ALIAS = "C03:no_int_result-under-trait-level-result-alias-keeps-raw-Result"


def c03(run):
    """C03: (1) structural oracle over all expansions, (2) the compiler's own FFI lints on
    expansions written out as plain source + probes, (3) repr audit of the runtime crate."""
    import gen_c03, shutil, subprocess, time
    exp = build_expander()
    n_random, n_groups = (60, 10) if run.tier == "quick" else (1200, 150)
    defs = gen_c03.make_defs(run.seed, n_random, n_groups)
    os.makedirs(common.WORK, exist_ok=True)
    defs_file = os.path.join(common.WORK, f"c03-defs-{os.getpid()}.json")
    json.dump(defs, open(defs_file, "w"))
    # (1) structural
    out = os.path.join(common.WORK, f"c03-struct-{os.getpid()}.json")
    cmd = [exp, "struct", defs_file, "C03", "--out", out]
    if run.replay:
        body = json.load(open(run.replay))
        if body.get("sub") == "structural":
            cmd += ["--replay", os.path.abspath(run.replay)]
    r = common.sh(cmd, timeout=3000)
    if not os.path.exists(out):
        raise Infra("expander struct produced no result:\n" + (r.stdout or "")[-2000:])
    res = json.load(open(out)); os.remove(out)
    res["_label"] = "structural"
    run.add_result(res)
    if run.replay and json.load(open(run.replay)).get("sub") == "structural":
        os.remove(defs_file)
        return
    # (2) lint crate(s)
    step = 13 if run.tier == "quick" else 1
    replay_ids = None
    if run.replay:
        replay_ids = set(json.load(open(run.replay)).get("case", {}).get("ids", []))
    chosen = [d for k, d in enumerate(defs) if d.get("lint", True) and ((d["id"][0] in "rgab") or k % step == 0)]
    if replay_ids is not None:
        chosen = [d for d in defs if d["id"] in replay_ids or any(u in replay_ids for u in d.get("uses", []))]
        # groups need their traits
        need = set(u for d in chosen for u in d.get("uses", []))
        chosen += [d for d in defs if d["id"] in need and d not in chosen]
    chunk_size = 400
    lint_evals, lint_nt, lint_viol, samples = 0, 0, [], []
    lint_known = {}
    crate = os.path.join(common.WORK, "c03lint")
    for c0 in range(0, len(chosen), chunk_size):
        chunk = chosen[c0:c0 + chunk_size]
        # groups refer to trait modules: make sure those are in the same chunk
        ids = set(d["id"] for d in chunk)
        for d in list(chunk):
            for u in d.get("uses", []):
                if u not in ids:
                    chunk.append(next(x for x in defs if x["id"] == u)); ids.add(u)
        shutil.rmtree(os.path.join(crate, "src"), ignore_errors=True)
        gen_c03.write_lint_crate(crate, [d["id"] for d in chunk], [])
        cf = os.path.join(common.WORK, f"c03-chunk-{os.getpid()}.json")
        json.dump(chunk, open(cf, "w"))
        env = dict(common.ENV); env["CARGO_MANIFEST_DIR"] = crate
        r = common.sh([exp, "emit", cf, os.path.join(crate, "src")], timeout=600, env=env)
        os.remove(cf)
        try:
            rep = json.loads(r.stdout.strip().splitlines()[-1])
        except Exception:
            raise Infra("expander emit failed:\n" + (r.stdout or "")[-2000:])
        bad_gen = [x for x in rep if not x["ok"]]
        if bad_gen:
            raise Infra(f"the generator rejects definitions of the closed grammar: {bad_gen[:2]}")
        env = dict(common.ENV); env["CARGO_TARGET_DIR"] = PB_TARGET
        r = subprocess.run(["cargo", "check", "--offline", "--message-format=json"], cwd=crate, env=env, stdout=subprocess.PIPE, stderr=subprocess.PIPE, text=True, timeout=3000)
        by_mod, other = {}, []
        for l in r.stdout.splitlines():
            try:
                m = json.loads(l)
            except Exception:
                continue
            if m.get("reason") != "compiler-message" or m["message"]["level"] != "error":
                continue
            mm = m["message"]
            code = (mm.get("code") or {}).get("code") or ""
            sp = mm["spans"][0] if mm["spans"] else {}
            f = os.path.basename(sp.get("file_name", ""))
            if code in ("improper_ctypes", "improper_ctypes_definitions"):
                by_mod.setdefault(f[:-3], []).append((code, mm["message"][:300], (sp.get("text") or [{}])[0].get("text", "")[:240]))
            elif "aborting due to" not in mm["message"] and "could not compile" not in mm["message"]:
                other.append((f, mm["message"][:200]))
        if other and not by_mod:
            raise Infra(f"lint crate does not compile for reasons other than the FFI lints: {other[:3]}")
        if r.returncode != 0 and not by_mod:
            # (e.g. dependency resolution failed: nothing was compiled, so nothing was judged)
            raise Infra("cargo check of the lint crate failed without compiler messages:\n" + (r.stderr or "")[-1500:])
        by_id = {d["id"]: d for d in chunk}
        for mod, errs in by_mod.items():
            d = by_id.get(mod)
            what = "; ".join(f"{c}: {msg} [{txt}]" for (c, msg, txt) in errs[:3])
            if (d or {}).get("label") == "trait-level-result-alias/no_int_result":
                if K_C03_ALIAS in run.known["known"]:
                    lint_known[K_C03_ALIAS] = lint_known.get(K_C03_ALIAS, 0) + 1
                else:
                    lint_viol.append({"sub": "lint", "key": K_C03_ALIAS, "what": f"definition {mod}: a method marked #[no_int_result] in a trait with a trait-level #[int_result(Alias)] keeps a raw Rust Result in its extern \"C\" vtable entry instead of CResult: {what}", "case": {"ids": [mod], "label": d.get("label"), "src": d.get("src")}})
            elif mod == "rt_types":
                lint_viol.append({"sub": "lint", "key": "C03:lint:runtime-type", "what": f"a wrapper type shipped by the runtime crate is not FFI-safe by the compiler's rules: {what}", "case": {"ids": ["rt_types"]}})
            else:
                lint_viol.append({"sub": "lint", "key": "C03:lint:" + errs[0][0], "what": f"definition {mod} ({(d or {}).get('label')}): {what}", "case": {"ids": [mod], "label": (d or {}).get("label"), "src": (d or {}).get("src")}})
        lint_evals += len(chunk) + 1
        lint_nt += sum(1 for d in chunk if d.get("nontrivial")) + 1
        samples += [{"sub": "lint", "case": {"id": d["id"], "label": d.get("label"), "src": d["src"][:600]}} for d in chunk[:2]]
        if lint_viol:
            break
    run.add_result({"_label": "lint", "evaluations": lint_evals, "distinct_nontrivial": lint_nt, "samples": samples[:4], "violations": lint_viol[:3],
                    "classes": {"lint:definitions": lint_evals}, "known_seen": lint_known,
                    "rule": "the same definitions, expanded by /repo's generator and written out as ordinary source modules of a crate with #![deny(improper_ctypes, improper_ctypes_definitions)], each followed by extern \"C\" probe declarations over the opaque Box/ArcBox/Mut/Ref/ArcRef object types (which makes the lint walk the instantiated vtable, container and RetTmp structs), plus probes over every wrapper type of the runtime crate; oracle = rustc's verdict. quick: every 13th enumerated definition + all random ones; thorough: all",
                    "assumptions": ["the lints of the installed stable rustc are the yardstick (the property says: by the compiler's own rules)"]})
    # (4) the functions installed in extern "C" slots really have the C ABI (panic probes)
    if not run.replay or json.load(open(run.replay)).get("sub") == "abi-probes":
        rb = build_rtprops()
        names = (common.sh([rb, "--abi-probe", "list"], timeout=60).stdout or "").split()
        if run.replay:
            names = [n for n in names if n == json.load(open(run.replay))["case"]["probe"]]
        aviol = []
        for n in names:
            rr = subprocess.run([rb, "--abi-probe", n], stdout=subprocess.DEVNULL, stderr=subprocess.DEVNULL, timeout=120)
            if rr.returncode in (42, 101):   # caught, or escaped to the top of the thread: it unwound either way
                aviol.append({"sub": "abi-probes", "key": "C03:abi:" + n, "what": f"probe {n}: a panic raised by user code inside the function the library installs in this extern \"C\" slot unwound into the caller instead of aborting at the boundary: the installed function does not have the C ABI", "case": {"probe": n}})
            elif rr.returncode != -6:
                run.inconclusive.append(f"ABI probe {n} ended with status {rr.returncode} (expected SIGABRT; 42/101 mean the panic unwound)")
        run.add_result({"_label": "abi-probes", "evaluations": len(names), "distinct_nontrivial": len(names), "violations": aviol, "classes": {"abi-probes": len(names)}, "known_seen": {},
                        "samples": [{"sub": "abi-probes", "case": {"probe": n}} for n in names[:2]], "exhaustive": True,
                        "rule": "every function-pointer slot the runtime crate and the generated code fill (CIterator next, callback from a closure, CVec / CBox / CSliceBox / CArc drop functions, a vtable entry, a consuming vtable entry): user code running inside the installed function panics, each probe in its own process; an extern \"C\" function aborts at its boundary, a Rust-ABI function hidden behind a transmute lets the panic unwind (exit 42)"})
        if run.replay:
            os.remove(defs_file) if os.path.exists(defs_file) else None
            return
    # (3) repr audit of the runtime crate
    out = os.path.join(common.WORK, f"c03-reprs-{os.getpid()}.json")
    common.sh([exp, "reprs", os.path.join(common.REPO, "cglue", "src"), out], timeout=300)
    rp = json.load(open(out)); os.remove(out)
    viol = []
    if rp["without_repr"]:
        viol.append({"sub": "reprs", "key": "C03:no-c-repr", "what": f"public runtime types without a C representation: {rp['without_repr'][:5]}", "case": {"types": rp["without_repr"]}})
    run.add_result({"_label": "reprs", "evaluations": rp["public_types"], "distinct_nontrivial": rp["public_types"], "violations": viol, "classes": {}, "known_seen": {}, "samples": [],
                    "rule": "every public non-zero-sized struct/enum/union in /repo/cglue/src (parsed with syn) carries a repr attribute"})
    os.remove(defs_file)


def c04(run):
    """C04: layout oracles inside the program batches + determinism of the expansion across
    fresh processes (fresh hash seeds) and crates."""
    import gen_c03, hashlib
    replay_def = None
    if run.replay:
        body = json.load(open(run.replay))
        if body.get("sub") == "expansion-determinism" and (body.get("case") or {}).get("def"):
            replay_def = body["case"]["def"]
        else:
            progbatch(run)
            return
    else:
        progbatch(run)
    exp = build_expander()
    n_random, n_groups = (80, 24) if run.tier == "quick" else (800, 200)
    if replay_def:
        defs = [replay_def]
    else:
        defs = gen_c03.make_defs(run.seed, n_random, n_groups)
        if run.tier == "quick":
            defs = [d for k, d in enumerate(defs) if d["id"][0] in "rgx" or k % 9 == 0]
    os.makedirs(common.WORK, exist_ok=True)
    defs_file = os.path.join(common.WORK, f"c04-defs-{os.getpid()}.json")
    json.dump(defs, open(defs_file, "w"))
    nproc = 8 if run.tier == "quick" else 32
    manifests = [os.path.join(common.WORK, "c03lint"), os.path.join(common.WORK, f"pb-{run.tier}-0"), os.path.join(common.REPO, "cglue")]
    import subprocess
    procs = []
    for i in range(nproc):
        out = os.path.join(common.WORK, f"c04-digest-{os.getpid()}-{i}.json")
        env = dict(common.ENV)
        md = manifests[i % len(manifests)]
        if os.path.exists(os.path.join(md, "Cargo.toml")):
            env["CARGO_MANIFEST_DIR"] = md
        procs.append((out, md, subprocess.Popen([exp, "digest", defs_file, out], env=env, stdout=subprocess.DEVNULL, stderr=subprocess.DEVNULL)))
    results = []
    for out, md, pr in procs:
        pr.wait(timeout=1800)
        if not os.path.exists(out):
            raise Infra("expander digest produced no output")
        results.append((md, json.load(open(out)))); os.remove(out)
    os.remove(defs_file)

    def norm(v):
        # the path by which the runtime crate is named depends on the expanding crate; it is not layout
        t = json.dumps(v)
        for pre in (":: cglue ::", "cglue ::", "crate ::"):
            t = t.replace(pre, "$C::")
        return t

    viol, evals, nt, samples = [], 0, 0, []
    order_checked = order_nt = groups_checked = 0
    ref = results[0][1]
    for d in defs:
        evals += 1
        variants = {}
        for md, r in results:
            variants.setdefault(norm(r.get(d["id"])), []).append(md)
        n_structs = len(ref.get(d["id"]) or []) if isinstance(ref.get(d["id"]), list) else 0
        if n_structs >= 1:
            nt += 1
        if len(samples) < 3 and n_structs >= 2:
            samples.append({"sub": "expansion-determinism", "case": {"id": d["id"], "src": d["src"][:300], "structs": [(s["name"], [f[0] for f in s["fields"]]) for s in ref[d["id"]][:4]]}})
        # one function pointer per exported method, in declaration order
        if d.get("exported") is not None and isinstance(ref.get(d["id"]), list) and not any(v["key"].startswith("C04:vtable-order") for v in viol):
            vt = [s for s in ref[d["id"]] if s["name"] == d["trait"] + "Vtbl"]
            got = [f[0] for f in vt[0]["fields"] if not f[0].startswith("_")] if vt else None
            order_checked += 1
            if len(d["exported"]) >= 2:
                order_nt += 1
            # ... and the #[cglue_trait_ext] expansion of the same definition has the same vtable
            ext = ref.get(d["id"] + "#ext")
            if isinstance(ext, list) and got == d["exported"]:
                evt = [s for s in ext if s["name"] == d["trait"] + "Vtbl"]
                egot = [f[0] for f in evt[0]["fields"] if not f[0].startswith("_")] if evt else None
                if egot != d["exported"]:
                    viol.append({"sub": "expansion-determinism", "key": "C04:vtable-order-ext",
                                 "what": f"definition {d['id']} ({d.get('label')}) expanded through #[cglue_trait_ext]: the vtable struct has the function pointers {egot}; the exported methods in declaration order are {d['exported']}",
                                 "case": {"id": d["id"], "src": d["src"], "def": d}})
            if got != d["exported"]:
                viol.append({"sub": "expansion-determinism", "key": "C04:vtable-order",
                             "what": f"definition {d['id']} ({d.get('label')}): the generated vtable struct has the function pointers {got}; the exported methods in declaration order are {d['exported']}",
                             "case": {"id": d["id"], "src": d["src"], "def": d}})
        # a group is {mandatory vtables by name, optional vtables by name, container}, and its
        # container {instance, context, temporary storage of each trait in that same order}
        if d.get("group") and isinstance(ref.get(d["id"]), list) and not any(v["key"] == "C04:group-fields" for v in viol):
            order = [x.lower() for x in sorted(d["mand"])] + [x.lower() for x in sorted(d["opt"])]   # by the identifier (byte order), not by the lower-cased field name
            want = {d["group"]: [f"vtbl_{x}" for x in order] + ["container"], d["group"] + "Container": ["instance", "context"] + [f"ret_tmp_{x}" for x in order]}
            groups_checked += 1
            for s_ in ref[d["id"]]:
                if s_["name"] in want:
                    gotf = [f[0] for f in s_["fields"] if not f[0].startswith("_")]
                    if gotf != want[s_["name"]]:
                        viol.append({"sub": "expansion-determinism", "key": "C04:group-fields",
                                     "what": f"group definition {d['id']} (`{d['src']}`): struct {s_['name']} has the fields {gotf}; expected {want[s_['name']]} (mandatory by name, then optional by name; the container's temporary storage in that same order)",
                                     "case": {"id": d["id"], "src": d["src"], "def": d}})
                        break
        if len(variants) > 1:
            a, b = list(variants.items())[:2]
            # first differing struct
            la, lb = json.loads(a[0]), json.loads(b[0])
            diff = next(((x, y) for x, y in zip(la, lb) if x != y), (la[:1], lb[:1])) if isinstance(la, list) and isinstance(lb, list) else (la, lb)
            viol.append({"sub": "expansion-determinism", "key": "C04:nondeterministic-layout",
                         "what": f"definition {d['id']} ({d.get('label')}): {len(variants)} different struct/field lists over {nproc} fresh processes; e.g. {json.dumps(diff)[:500]}",
                         "case": {"id": d["id"], "src": d["src"], "def": d}})
            break
    run.add_result({"_label": "determinism", "evaluations": evals, "distinct_nontrivial": nt, "samples": samples, "violations": viol, "classes": {"determinism:definitions": evals, "determinism:processes": nproc, "vtable-order:traits": order_checked, "vtable-order:traits-with-2+-entries": order_nt, "group-fields:groups": groups_checked}, "known_seen": {},
                    "rule": f"each definition (enumerated single-method traits, random traits, random groups incl. groups with built-in external traits) is expanded by /repo's generator in {nproc} fresh processes (fresh RandomState) under three different expanding crates; the ordered list (struct name, [(field name, field type)]) of every repr(C) struct must be identical (the path prefix naming the runtime crate normalised); and for every trait definition the fields of the generated `<Trait>Vtbl` struct must be exactly the exported methods (not #[skip_func]; including #[vtbl_only]) in declaration order, and for every group definition the group struct and its container struct must list vtable pointers resp. temporary storage as mandatory-by-name then optional-by-name. Non-trivial = the expansion contains at least one repr(C) struct"})


def c20(run):
    import gen_c20
    rounds = 1 if run.tier == "quick" else 10
    for i in range(rounds):
        seed = run.seed * 100 + i
        if run.replay:
            body = json.load(open(run.replay))
            seed = (body.get("engine_params") or {}).get("seed", seed)
        d = gen_c20.make(seed, 80)
        ok, exe, errs, tail = _diag.build(d, PB_TARGET, timeout=3000)
        if not ok:
            raise Infra("the C20 pair crate does not build (layout_checks feature) against the current tree:\n" + json.dumps(errs)[:2000] + tail[-1500:])
        res = run.run_harness(exe, timeout=600, label=f"c20pairs-{i}")
        res["_params"] = {"seed": seed}
        if run.replay:
            break


def hdr_check(run):
    """C17 / C18: generated cbindgen-shaped headers through /repo's cglue-bindgen"""
    import hdrrun
    tool = hdrrun.build_tool()
    prop = run.prop
    n_models = 150 if run.tier == "quick" else 3000
    known = set(run.known["known"].keys())
    seeds = [run.seed * 100000 + i for i in range(n_models)]
    if run.replay:
        body = json.load(open(run.replay))
        if body.get("sub") == "argv":
            seeds = []
        else:
            seeds = [body["case"]["seed"]]
    modes = {}
    if run.replay and seeds:
        modes[seeds[0]] = body["case"].get("mode", "C")
    # every third model is rendered in cbindgen's C++ (template) shape
    jobs = [(tool, s, i, known, 4, modes.get(s, "C++" if i % 3 == 2 else "C")) for i, s in enumerate(seeds)]
    res = hdrrun.run_many(hdrrun.check_model, jobs)
    viol, known_seen, samples = [], {}, []
    n_cpp = sum(1 for j in jobs if j[5] == "C++")
    nontrivial = set()
    evals = 0
    entries = 0
    for r in res:
        evals += 1
        info = r["info"]
        entries += info.get("entries", 0)
        for k, v in info["known_seen"].items():
            if k.startswith(prop):
                known_seen[k] = known_seen.get(k, 0) + v
        nt = info.get("c17_nontrivial") if prop == "C17" else (info.get("two_ctx") or info.get("look_alike") or info.get("sized_rettmp") or info.get("suffix_names") or info.get("generic_ctx"))
        if nt:
            nontrivial.add(info["seed"])
            if len(samples) < 3:
                samples.append({"sub": "headers", "case": {"mode": info.get("mode", "C"), **{k: info[k] for k in ("seed", "insts", "config", "groups", "traits")}}})
        for v in r["viol"]:
            if v["prop"] == prop and not any(x["key"] == v["key"] for x in viol):
                viol.append({"sub": "headers", "key": v["key"], "what": v["what"], "case": {"seed": info["seed"], "mode": info.get("mode", "C"), "insts": info["insts"], "groups": info["groups"], "config": info["config"]}})
    rule17 = "API models (1-4 traits with 1-4 methods of 0-4 scalar/struct/slice/pointer/callback arguments, by-ref/by-mut/consuming receivers, scalar/struct/slice/self-container returns, deliberate method-name clashes; 0-2 groups; Box/Mut/Ref containers; Arc and no context; optional default container/context and function prefix) are rendered in cbindgen's C output shape (concrete item shapes as in examples/pregen-headers) and, every third model, in its C++ template shape, post-processed by /repo's cglue-bindgen behind a stub cbindgen, and EXECUTED: a generated C (resp. C++) driver builds every object with mock vtables/box/arc functions and calls every wrapper the tool's naming scheme offers for every entry (C++: the member function; the destructor as drop helper) with distinctive arguments; expected: exactly that slot of that object's vtable, the object's container, arguments unchanged and in order, scripted return value back, and for consuming entries / drop helpers instance and context released once with a context clone held across the call. Non-trivial = a vtable with entries of different arity, or a group with a method-name clash, or a consuming entry with a context"
    rule18 = "the same header space plus user declarations interleaved at generated positions (some named like CGlue patterns: ...Vtbl, ...RetTmp..., ...Container..., Context..., CGlueX): (1) gcc and clang -std=c99 (g++ and clang++ -std=c++11 for C++ models) -fsyntax-only accept the output on its own; (2) the tool run 5 times in fresh processes gives byte-identical output, also into an output path that already holds a longer file; (3) every foreign declaration occurs verbatim and in the original order; (4) argv contract with a recording stub cbindgen (and stub rustup for +nightly): arguments after `--` minus the output option reach cbindgen unchanged and in order, arguments before `--` do not, the processed header lands in the output path or on stdout, -c selects the config. Non-trivial = two context kinds in one header, a look-alike foreign declaration, a trait with sized temporary-return storage, one trait name being a suffix of another, or a context-generic item monomorphised for two context kinds"
    res_main = {"_label": "headers", "evaluations": evals, "distinct_nontrivial": len(nontrivial), "samples": samples, "violations": viol, "known_seen": known_seen,
                "classes": {"headers:models": evals, "headers:models-c++": n_cpp, "headers:vtable-entries-executed": entries}, "rule": rule17 if prop == "C17" else rule18,
                "assumptions": ["cbindgen is not installed: the raw headers are an emulation restricted to concrete item shapes that occur verbatim in examples/pregen-headers/bindings.h (C) and to the template shapes codegen/cpp.rs matches (C++)"]}
    run.add_result(res_main)
    if prop == "C18":
        n_argv = 120 if run.tier == "quick" else 2000
        aseeds = [run.seed * 1000 + i for i in range(n_argv)]
        if run.replay:
            body = json.load(open(run.replay))
            aseeds = [body["case"]["seed"]] if body.get("sub") == "argv" else []
        ares = hdrrun.run_many(hdrrun.argv_case, [(tool, s, i) for i, s in enumerate(aseeds)])
        aviol = []
        for s, r in zip(aseeds, ares):
            for v in r["viol"]:
                if not any(x["key"] == v["key"] for x in aviol):
                    aviol.append({"sub": "argv", "key": v["key"], "what": v["what"], "case": {"seed": s, **r["case"]}})
        run.add_result({"_label": "argv", "evaluations": len(ares), "distinct_nontrivial": len(set(json.dumps(r["case"]) for r in ares if r["case"]["post"])), "samples": [{"sub": "argv", "case": r["case"]} for r in ares[:2]],
                        "violations": aviol, "known_seen": {}, "classes": {"argv:cases": len(ares)}, "rule": "generated argument vectors for the tool"})


XMOD = os.path.join(common.HARNESS, "xmod")


def xmod_build(cfg):
    """cfg = (toolchain, profile, layout_seed|None); returns (host exe, plugin .so)"""
    tc, prof, lseed = cfg
    name = f"{tc}-{prof}" + (f"-rand" if lseed is not None else "")
    tdir = os.path.join(common.TARGET, "xmod", name)
    cmd = ["cargo", f"+{tc}", "build", "--offline", "-p", "xplugin", "-p", "xhost", "--target-dir", tdir]
    if prof == "release":
        cmd.append("--release")
    env = dict(common.ENV)
    if lseed is not None:
        env["RUSTFLAGS"] = f"-Zrandomize-layout -Zlayout-seed={lseed}"
    r = common.sh(cmd, cwd=XMOD, timeout=3000, env=env)
    if r.returncode != 0:
        raise Infra(f"xmod build {name} failed:\n" + (r.stdout or "")[-3000:])
    return os.path.join(tdir, prof, "xhost"), os.path.join(tdir, prof, "libxplugin.so"), name + (f"(seed {lseed})" if lseed is not None else "")


def c05(run):
    seed = run.seed
    ls1, ls2 = 1000 + seed * 7, 2000 + seed * 13
    if run.tier == "quick":
        cfgs = {"a": ("stable", "debug", None), "b": ("nightly", "release", ls1)}
        pairs = [("a", "b"), ("b", "a")]
        cases = 400
    else:
        cfgs = {"a": ("stable", "debug", None), "b": ("nightly", "release", ls1), "c": ("stable", "release", None), "d": ("nightly", "debug", ls2),
                "e": ("1.98.1", "debug", None), "f": ("1.98.1", "release", None), "g": ("nightly-2026-08-21", "release", ls2 + 1)}
        import random as _r
        rr = _r.Random(seed)
        names = list(cfgs)
        pairs = [("a", "b"), ("b", "a"), ("e", "c"), ("c", "g"), ("g", "e"), ("f", "d"), ("d", "f")]
        while len(pairs) < 12:
            h, p = rr.choice(names), rr.choice(names)
            if h != p and (h, p) not in pairs:
                pairs.append((h, p))
        cases = 3000
    if run.replay:
        body = json.load(open(run.replay))
        ep = body.get("engine_params") or {}
        if ep.get("pair"):
            pairs = [tuple(ep["pair"])]
            cfgs = {k: tuple(v) for k, v in ep["cfgs"].items()}
    if not run.replay or json.load(open(run.replay)).get("sub") == "plugin-api-types":
        # the repository's own plugin API (the documented way to cross a module boundary): every
        # public type it declares is read by both modules, so each needs a defined C representation
        # (a repr(Rust) struct only breaks under a different compiler or layout seed)
        exp = build_expander()
        out = os.path.join(common.WORK, f"c05-reprs-{os.getpid()}.json")
        common.sh([exp, "reprs", os.path.join(common.REPO, "examples", "plugin-api", "src"), out], timeout=300)
        rp = json.load(open(out)); os.remove(out)
        viol = []
        if rp["without_repr"]:
            viol.append({"sub": "plugin-api-types", "key": "C05:boundary-type-without-c-repr", "what": f"public types of examples/plugin-api that both modules read have no C representation: {rp['without_repr'][:5]}", "case": {"types": rp["without_repr"]}})
        run.add_result({"_label": "plugin-api-types", "evaluations": rp["public_types"], "distinct_nontrivial": rp["public_types"], "violations": viol, "classes": {}, "known_seen": {}, "samples": [],
                        "rule": "every public non-zero-sized struct/enum/union declared by examples/plugin-api/src (parsed with syn) carries a repr attribute"})
        if run.replay:
            return
    built = {}
    for k in sorted(set(x for p in pairs for x in p)):
        built[k] = xmod_build(cfgs[k])
    for (h, p) in pairs:
        host, _, hname = built[h]
        _, plugin, pname = built[p]
        label = f"host={hname}/plugin={pname}"
        res = run.run_harness(host, args=["--plugin", plugin, "--label", label, "--cases", str(cases)], timeout=3000, label=f"xmod:{label}")
        res["_params"] = {"pair": [h, p], "cfgs": {k: list(v) for k, v in cfgs.items()}}
    run.extra_cov["build_pairs"] = [f"host={built[h][2]} plugin={built[p][2]}" for (h, p) in pairs]


def c08(run):
    import gen_c08
    d = gen_c08.make(run.tier)
    ok, exe, errs, tail = _diag.build(d, PB_TARGET, release=(run.tier == "thorough"), timeout=3000)
    if not ok:
        raise Infra("the C08 cell crate does not build against the current tree:\n" + json.dumps(errs)[:2000] + tail[-1500:])
    run.run_harness(exe, timeout=1800, label="c08cells")
    # second configuration: the library with `layout_checks`
    d2 = gen_c08.make_lc()
    ok, exe2, errs, tail = _diag.build(d2, PB_TARGET, timeout=3000)
    if not ok:
        if any(r.get("violations") for r in run.results):
            return
        raise Infra("the C08 layout_checks cell crate does not build against the current tree:\n" + json.dumps(errs)[:2000] + tail[-1500:])
    run.run_harness(exe2, timeout=1800, label="c08lc")


def c09(run):
    import gen_c09
    d = gen_c09.make()
    ok, exe, errs, tail = _diag.build(d, PB_TARGET, timeout=3000)
    if not ok:
        raise Infra("the C09 marker crate does not build against the current tree:\n" + json.dumps(errs)[:2000] + tail[-1500:])
    run.run_harness(exe, timeout=600, label="c09markers")


PROPS = {
    "C05": c05,
    "C17": hdr_check,
    "C18": hdr_check,
    "C20": c20,
    "C03": c03,
    "C04": c04,
    "C08": c08,
    "C09": c09,
    "C01": progbatch,
    "C02": progbatch,
    "C06": None,
    "C07": None,
    "C13": None,
    "C10": rt,
    "C11": rt,
    "C12": rt,
    "C14": rt,
    "C15": rt,
    "C16": rt,
    "C19": rt,
}


def c13(run):
    rt(run)
    progbatch(run)


PROPS["C13"] = c13


def c06_c07(run):
    rt(run)
    progbatch(run)


PROPS["C06"] = c06_c07
PROPS["C07"] = c06_c07
