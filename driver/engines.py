"""Property id -> function that runs its engine(s) and fills a common.Run."""
import os, json
import common
from common import Infra


def build_rtprops(release=False):
    ok, out = common.cargo_build("rtprops", release=release)
    if not ok:
        # The harness uses only public API of cglue; if it does not build, the tree under test
        # does not offer that API any more -> inconclusive, never a violation.
        raise Infra("rtprops does not build against the current tree:\n" + out[-4000:])
    return common.bin_path("rtprops", release=release)


def rt(run):
    b = build_rtprops(release=(run.tier == "thorough"))
    if not run.replay:
        # regression tier: saved minimal cases of earlier findings, replayed without any RNG
        for f in common.saved_replays(run.prop):
            run.run_harness(b, timeout=300, label="regression:" + os.path.basename(f), replay_file=f)
    run.run_harness(b, timeout=7200)


# ---------------------------------------------------------------------------------------------
# program batches (generated traits compiled against the current tree)

import batch as _batch
import cargo_diag as _diag

PB_TARGET = os.path.join(common.TARGET, "pb")


def pb_params(tier, seed):
    if tier == "quick":
        return [dict(idx=0, n=int(os.environ.get("VERIF_PB_TRAITS", "20")), cases=int(os.environ.get("VERIF_PB_CASES", "150")), release=False)]
    return [dict(idx=i, n=48, cases=1500, release=(i == 5)) for i in range(6)]


def build_batch(run, seed, p):
    """Generate + build one batch; modules the current tree rejects are dropped and counted."""
    name = f"pb-{run.tier}-{p['idx']}"
    exclude, rejected = set(), {}
    for attempt in range(6):
        d, traits, desc = _batch.make_batch(seed * 16 + p["idx"], p["n"], name, exclude=exclude)
        ok, exe, errs, tail = _diag.build(d, PB_TARGET, release=p["release"], timeout=3000)
        if ok:
            return exe, desc, rejected, d
        bad = set()
        for f, msgs in errs.items():
            base = os.path.basename(f or "")
            if base.startswith("m") and base.endswith(".rs") and base[1:-3].isdigit():
                bad.add(base[:-3])
                rejected[base[:-3]] = msgs[:2]
            else:
                raise Infra(f"program batch does not build (not attributable to a generated definition): {f}: {msgs[:3]}\n{tail[-1500:]}")
        if not bad:
            raise Infra("program batch does not build:\n" + tail[-3000:])
        exclude |= bad
    raise Infra("program batch still does not build after dropping rejected modules")


def progbatch(run, extra_args=None):
    seed = run.seed
    params = pb_params(run.tier, seed)
    if run.replay:
        body = json.load(open(run.replay))
        ep = body.get("engine_params") or {}
        if ep:
            run.tier_for_batch = ep.get("tier", run.tier)
            seed = ep.get("seed", seed)
            params = [q for q in pb_params(ep.get("tier", run.tier), seed) if q["idx"] == ep.get("idx", 0)]
    total_rejected = {}
    for p in params:
        exe, desc, rejected, d = build_batch(run, seed, p)
        for m, msgs in rejected.items():
            total_rejected[f"batch{p['idx']}/{m}"] = {"definition": desc.get(m), "rustc": msgs}
        args = ["--cases", str(p["cases"])] + (extra_args or [])
        res = run.run_harness(exe, args=args, timeout=3600, label=f"batch{p['idx']}")
        res["_params"] = {"tier": run.tier if not run.replay else getattr(run, "tier_for_batch", run.tier), "seed": seed, "idx": p["idx"]}
        # a few generated definitions as samples
        if not run.replay:
            run.extra_cov.setdefault("sample_definitions", [])
            for m in list(desc)[:2]:
                run.extra_cov["sample_definitions"].append(desc[m])
    run.extra_cov["compile_rejected"] = len(total_rejected)
    if total_rejected:
        run.extra_cov["compile_rejected_detail"] = dict(list(total_rejected.items())[:5])


def c08(run):
    import gen_c08
    d = gen_c08.make(run.tier)
    ok, exe, errs, tail = _diag.build(d, PB_TARGET, release=(run.tier == "thorough"), timeout=3000)
    if not ok:
        raise Infra("the C08 cell crate does not build against the current tree:\n" + json.dumps(errs)[:2000] + tail[-1500:])
    run.run_harness(exe, timeout=1800, label="c08cells")


def c09(run):
    import gen_c09
    d = gen_c09.make()
    ok, exe, errs, tail = _diag.build(d, PB_TARGET, timeout=3000)
    if not ok:
        raise Infra("the C09 marker crate does not build against the current tree:\n" + json.dumps(errs)[:2000] + tail[-1500:])
    run.run_harness(exe, timeout=600, label="c09markers")


PROPS = {
    "C08": c08,
    "C09": c09,
    "C01": progbatch,
    "C02": progbatch,
    "C06": None,
    "C07": None,
    "C13": None,
    "C10": rt,
    "C11": rt,
    "C12": rt,
    "C14": rt,
    "C15": rt,
    "C16": rt,
    "C19": rt,
}


def c13(run):
    rt(run)
    progbatch(run)


PROPS["C13"] = c13


def c06_c07(run):
    rt(run)
    progbatch(run)


PROPS["C06"] = c06_c07
PROPS["C07"] = c06_c07
