"""Property id -> function that runs its engine(s) and fills a common.Run."""
import os, json
import common
from common import Infra


def build_rtprops(release=False):
    ok, out = common.cargo_build("rtprops", release=release)
    if not ok:
        # The harness uses only public API of cglue; if it does not build, the tree under test
        # does not offer that API any more -> inconclusive, never a violation.
        raise Infra("rtprops does not build against the current tree:\n" + out[-4000:])
    return common.bin_path("rtprops", release=release)


def rt(run):
    b = build_rtprops(release=(run.tier == "thorough"))
    if not run.replay:
        # regression tier: saved minimal cases of earlier findings, replayed without any RNG
        for f in common.saved_replays(run.prop):
            run.run_harness(b, timeout=300, label="regression:" + os.path.basename(f), replay_file=f)
    run.run_harness(b, timeout=7200)


PROPS = {
    "C10": rt,
    "C11": rt,
    "C12": rt,
    "C13": rt,
    "C14": rt,
    "C15": rt,
    "C16": rt,
    "C19": rt,
}
