"""Runner for the header engine: post-process generated headers with /repo's cglue-bindgen and
apply the C17 (execution) and C18 (compile / reproducible / foreign declarations / argv) oracles."""
import os, random, re, subprocess, json, shutil, hashlib, sys
from concurrent.futures import ThreadPoolExecutor
import hdr
from common import WORK, ENV, REPO, TARGET, Infra

TOOL_TARGET = os.path.join(TARGET, "bindgen")
K_PRIM_CB = "C18:callback-over-primitive-payload-does-not-compile"
K_SELF_VT = "C17:self-returning-wrapper-leaves-vtables-uninitialised"
K_SELF_NOWRAP = "C17:self-returning-entry-has-no-wrapper-for-further-instantiations"
K_CLASH = "C17:method-name-shared-by-traits-of-a-group-gets-one-wrapper"
K_CPP_CTXLEAK = "C17:c++:consuming-wrapper-never-releases-its-context-clone"
K_CPP_NOCTX_CFG = "C18:c++:default_context-NoContext-with-default_container-does-not-compile"
K_CPP_NO_MU = "C18:c++:RustMaybeUninit-undefined-when-input-has-no-MaybeUninit"


def build_tool():
    env = dict(ENV)
    env["CARGO_TARGET_DIR"] = TOOL_TARGET
    r = subprocess.run(["cargo", "build", "--offline", "-p", "cglue-bindgen"], cwd=REPO, env=env, stdout=subprocess.PIPE, stderr=subprocess.STDOUT, text=True, timeout=1800)
    if r.returncode != 0:
        raise Infra("cglue-bindgen does not build:\n" + r.stdout[-3000:])
    return os.path.join(TOOL_TARGET, "debug", "cglue-bindgen")


STUB = """#!/bin/sh
# stand-in for cbindgen: records its argv, prints the prepared raw header
d="$(dirname "$0")"
: > "$d/argv.txt"
for a in "$@"; do printf '%s\\n' "$a" >> "$d/argv.txt"; done
cat "$d/raw.h"
"""
STUB_RUSTUP = """#!/bin/sh
# stand-in for `rustup run nightly cbindgen ...`
d="$(dirname "$0")"
if [ "$1" = "run" ] && [ "$2" = "nightly" ] && [ "$3" = "cbindgen" ]; then shift 3; printf 'via-rustup\\n' > "$d/via.txt"; exec "$d/cbindgen" "$@"; fi
exit 9
"""


_MASTER = {}
_MASTER_LOCK = __import__("threading").Lock()


def _master_stub(name, txt):
    """the stand-in scripts are written ONCE per process and hard-linked into each work directory:
    writing an executable per case from a pool of threads races with the other threads' fork+exec
    (a forked child briefly holds the write descriptor, and executing the script then fails with
    ETXTBSY inside cglue-bindgen - seen once as a false `tool-rejects-header`)"""
    with _MASTER_LOCK:
        if name not in _MASTER:
            md = os.path.join(WORK, "hdr", f"stubs-{os.getpid()}")
            os.makedirs(md, exist_ok=True)
            p = os.path.join(md, name)
            with open(p, "w") as f:
                f.write(txt)
            os.chmod(p, 0o755)
            _MASTER[name] = p
        return _MASTER[name]


def prepare_dir(d, raw, config):
    os.makedirs(d, exist_ok=True)
    with open(os.path.join(d, "raw.h"), "w") as f:
        f.write(raw)
    for name, txt in (("cbindgen", STUB), ("rustup", STUB_RUSTUP)):
        p = os.path.join(d, name)
        if os.path.lexists(p):
            os.remove(p)
        os.link(_master_stub(name, txt), p)
    cfg = os.path.join(d, "cglue.toml")
    open(cfg, "w").write("".join(f'{k} = "{v}"\n' for k, v in config.items()))
    return cfg


def run_tool(tool, d, pre, post, timeout=60):
    env = dict(os.environ)
    env["PATH"] = d + ":" + env["PATH"]
    for f in ("argv.txt", "via.txt"):
        try:
            os.remove(os.path.join(d, f))
        except FileNotFoundError:
            pass
    for attempt in range(6):
        r = subprocess.run([tool] + pre + ["--"] + post, cwd=d, env=env, stdout=subprocess.PIPE, stderr=subprocess.PIPE, text=True, timeout=timeout)
        if "ExecutableFileBusy" not in r.stderr and "Text file busy" not in r.stderr:
            break
        # the operating system refused to execute a file that is still open for writing somewhere:
        # a property of this harness' own process tree, never of the tool
        __import__("time").sleep(0.2 * (attempt + 1))
    else:
        raise Infra("executing the cbindgen stand-in keeps failing with ETXTBSY: " + r.stderr[:200])
    argv = None
    p = os.path.join(d, "argv.txt")
    if os.path.exists(p):
        argv = open(p).read().split("\n")[:-1]
    return r, argv, os.path.exists(os.path.join(d, "via.txt"))


def syntax_check(d, path, mode):
    errs = []
    for cc in (["gcc", "-std=c99"], ["clang", "-std=c99"]) if mode == "C" else (["g++", "-std=c++11"], ["clang++", "-std=c++11"]):
        r = subprocess.run(cc + ["-fsyntax-only", "-x", "c" if mode == "C" else "c++", path], cwd=d, stdout=subprocess.PIPE, stderr=subprocess.STDOUT, text=True, timeout=120)
        if r.returncode != 0:
            errs.append((cc[0], r.stdout[:700]))
    return errs


def regenerate_over_existing(tool, d, pre, out, name, tag):
    """the output path 'receives the processed header' also when a (longer) file is already there"""
    p = os.path.join(d, name)
    open(p, "w").write(out + "\n/* left over from an earlier, longer header */\ntypedef int stale_tail_t;\n" * 3)
    run_tool(tool, d, pre, ["--config", "cb.toml", "--crate", "api", "-o", p])
    got = open(p).read() if os.path.exists(p) else None
    if got != out:
        what = "missing" if got is None else (f"{len(got)} bytes, the processed header has {len(out)}; it still ends with the previous file's tail" if got.startswith(out) else "different content")
        return [{"prop": "C18", "key": f"C18:{tag}output-path-not-replaced", "what": f"writing the processed header to an output path that already holds a longer file does not leave exactly the processed header there: {what}"}]
    return []


def check_model(tool, seed, idx, known, n_repro=4, mode="C"):
    """returns dict with violations (list of {prop, key, what}), info flags"""
    if mode == "C++":
        return check_model_cpp(tool, seed, idx, known, n_repro)
    rng = random.Random(seed)
    model = hdr.gen_model(rng)
    raw, foreign = hdr.render(model)
    d = os.path.join(WORK, "hdr", f"w{idx % 64}-{os.getpid()}")
    shutil.rmtree(d, ignore_errors=True)
    cfg = prepare_dir(d, raw, model.config)
    out_path = os.path.join(d, "out.h")
    viol = []
    info = {"seed": seed, "insts": [(i.kind, i.name, i.cont, i.ctx) for i in model.insts], "config": model.config,
            "traits": {t: [(m.name, m.recv, [a[0] for a in m.args], m.ret[0]) for m in tr.methods] for t, tr in model.traits.items()},
            "groups": model.groups, "foreign": len(model.foreign), "known_seen": {}}
    pre = ["-c", cfg] if model.config else []
    r, argv, _ = run_tool(tool, d, pre, ["--config", "cb.toml", "--crate", "api", "-o", out_path])
    if r.returncode != 0 or not os.path.exists(out_path):
        viol.append({"prop": "C18", "key": "C18:tool-rejects-header", "what": f"cglue-bindgen failed on a header in the supported shape: exit {r.returncode}: {r.stderr[:300]}"})
        return {"viol": viol, "info": info}
    out = open(out_path).read()
    # ---- C18.1 self-contained, compiles
    errs = syntax_check(d, out_path, "C")
    if errs:
        msg = errs[0][1]
        prim = model.cb_payload != "Pair" and re.search(r"unknown type name .u32.", msg) and "cb_co" in msg
        if prim and K_PRIM_CB in known:
            info["known_seen"][K_PRIM_CB] = info["known_seen"].get(K_PRIM_CB, 0) + 1
        elif prim:
            viol.append({"prop": "C18", "key": K_PRIM_CB, "what": f"a header with a callback over a primitive payload (Callback_c_void__u32) does not compile after post-processing: the collect/count helpers use the Rust type name as a C type: {msg[:300]}"})
        else:
            carrier = re.search(r"unknown type name .(CBox_c_void|CArc_c_void).", msg)
            viol.append({"prop": "C18", "key": "C18:does-not-compile" + (":undefined-carrier-type" if carrier else ""), "what": f"post-processed header rejected by {errs[0][0]} -std=c99: {msg}"})
    # ---- C18.2 reproducible
    digests = {hashlib.sha1(out.encode()).hexdigest()}
    for k in range(n_repro):
        o2 = os.path.join(d, f"out{k}.h")
        run_tool(tool, d, pre, ["--config", "cb.toml", "--crate", "api", "--output", o2])
        if os.path.exists(o2):
            digests.add(hashlib.sha1(open(o2, "rb").read()).hexdigest())
    if len(digests) > 1:
        viol.append({"prop": "C18", "key": "C18:not-reproducible", "what": f"{len(digests)} different outputs over {n_repro + 1} runs of the tool in fresh processes on the same input and configuration"})
    viol += regenerate_over_existing(tool, d, pre, out, "stale.h", "")
    # ---- C18.3 foreign declarations kept, unmodified, in order
    posn = -1
    for f in foreign:
        p = out.find(f, posn + 1)
        if p < 0:
            where = "missing or modified" if out.find(f) < 0 else "out of order"
            viol.append({"prop": "C18", "key": "C18:foreign-declaration-" + ("lost" if out.find(f) < 0 else "reordered"), "what": f"a declaration that does not belong to a CGlue construct is {where} in the output: {f[:160]!r}"})
            break
        posn = p
    info["look_alike"] = any(any(x in f for x in ("Vtbl", "RetTmp", "Container", "Context", "CGlue")) for (_, f) in model.foreign)
    info["two_ctx"] = len(set(i.ctx for i in model.insts)) >= 2
    info["generic_ctx"] = bool(getattr(model, "generic_ctx", None)) and info["two_ctx"]
    info["sized_rettmp"] = any(getattr(t, "rettmp_sized", False) for t in model.traits.values())
    info["suffix_names"] = any(a != b and a.endswith(b) for a in model.traits for b in model.traits)
    # every sized temporary-return field must still be in its container
    for inst in model.insts:
        x = hdr.CTX_TY[inst.ctx].mangle()
        for t in hdr.inst_traits(model, inst):
            if getattr(model.traits[t], "rettmp_sized", False):
                fld = f"struct {t}RetTmp_{x} ret_tmp" + (";" if inst.kind == "obj" else f"_{t.lower()};")
                if fld not in out and not any(v["key"] == "C18:sized-rettmp-field-lost" for v in viol):
                    viol.append({"prop": "C18", "key": "C18:sized-rettmp-field-lost", "what": f"the container of {inst.kind} {inst.name} ({inst.cont}, {inst.ctx}) no longer has its field `{fld}` (the temporary-return storage of trait {t} is not zero-sized)"})
    # ---- C17 execution
    if not errs:
        drv, plan = hdr.c_driver(model, out)
        open(os.path.join(d, "drv.c"), "w").write(drv)
        rc = subprocess.run(["gcc", "-std=c99", "-O0", "-w", "-o", os.path.join(d, "drv"), os.path.join(d, "drv.c"), "-I", d], stdout=subprocess.PIPE, stderr=subprocess.STDOUT, text=True, timeout=300)
        if rc.returncode != 0:
            viol.append({"prop": "C17", "key": "C17:wrapper-signature", "what": f"calling the wrappers with the entry's own argument types does not compile: {rc.stdout[:600]}"})
        else:
            rr = subprocess.run([os.path.join(d, "drv")], stdout=subprocess.PIPE, stderr=subprocess.STDOUT, text=True, timeout=60)
            if rr.returncode != 0:
                viol.append({"prop": "C17", "key": "C17:driver-crash", "what": f"the mock driver died with status {rr.returncode} while calling wrappers"})
            lines = {}
            for l in rr.stdout.splitlines():
                if not (l.startswith("CALL ") or l.startswith("DROP ")):
                    continue
                kv = dict(x.split("=", 1) for x in l.split()[1:] if "=" in x)
                if "slots" not in kv or "inst" not in kv:
                    continue
                lines.setdefault((int(kv["inst"]), kv["trait"], kv["meth"]), []).append(kv)
            info["entries"] = len(plan)
            nt = False
            for e in plan:
                inst = model.insts[e["inst"]]
                rows = lines.get((e["inst"], e["trait"], e["meth"]), [])
                is_drop = e.get("drop")
                box, arc = inst.cont == "Box", inst.ctx == "Arc"

                def good_drop(kv):
                    return kv["slots"] == "0" and int(kv["boxdrops"]) == int(box) and int(kv["ctxdrops"]) == int(arc) and kv["ctxclones"] == "0"

                def good(kv):
                    base = kv["slots"] == "1" and kv["sid"] == kv["want"] and kv["cont_ok"] == "1" and kv["inst_ok"] == "1" and kv["args_ok"] == "1" and kv["ret_ok"] == "1"
                    if e["recv"] == "own":
                        acct = int(kv["boxdrops"]) == int(box) and int(kv["ctxclones"]) == int(arc) and int(kv["ctxdrops"]) == 2 * int(arc) and kv["order_ok"] == "1"
                    else:
                        acct = kv["boxdrops"] == "0" and kv["ctxclones"] == "0" and kv["ctxdrops"] == "0"
                    return base and acct, kv["vt_ok"] == "1"

                if is_drop:
                    if not rows:
                        viol.append({"prop": "C17", "key": "C17:no-drop-helper", "what": f"no drop helper is offered for {inst.kind} {inst.name} ({inst.cont}, {inst.ctx})"})
                    elif not any(good_drop(kv) for kv in rows):
                        viol.append({"prop": "C17", "key": "C17:drop-helper-accounting", "what": f"drop helper {rows[0]['wrapper']} of {inst.name} ({inst.cont}, {inst.ctx}): released instance {rows[0]['boxdrops']}x, context {rows[0]['ctxdrops']}x, vtable calls {rows[0]['slots']}"})
                    continue
                res = [good(kv) for kv in rows]
                if e["recv"] == "own" and arc:
                    nt = True
                if not rows:
                    others = [p for p in plan if p["trait"] == e["trait"] and p["meth"] == e["meth"] and p["cands"]]
                    if e.get("shared_name"):
                        key = K_CLASH
                    elif e["ret"] == "self" and others:
                        key = K_SELF_NOWRAP
                    else:
                        key = "C17:no-wrapper"
                    if key in known:
                        info["known_seen"][key] = info["known_seen"].get(key, 0) + 1
                    else:
                        viol.append({"prop": "C17", "key": key, "what": f"no callable wrapper is offered for entry {e['trait']}::{e['meth']} of {inst.kind} {inst.name} ({inst.cont}, {inst.ctx})" + (" although other instantiations of the same trait have one (wrappers are de-duplicated by name, the return type differs)" if key == K_SELF_NOWRAP else "") + (" (another trait of the group has a method of the same name; group wrappers are named {group}_{method})" if key == K_CLASH else "")})
                    continue
                if any(b and v for (b, v) in res):
                    continue
                if any(b for (b, v) in res) and e["ret"] == "self":
                    if K_SELF_VT in known:
                        info["known_seen"][K_SELF_VT] = info["known_seen"].get(K_SELF_VT, 0) + 1
                    else:
                        viol.append({"prop": "C17", "key": K_SELF_VT, "what": f"wrapper {rows[0]['wrapper']} for {e['trait']}::{e['meth']} (returns the object) calls the right entry but the vtable pointer(s) of the returned object are not copied from the source object (uninitialised)"})
                    continue
                kv = rows[0]
                if e.get("shared_name") and (kv["slots"] != "1" or kv["sid"] != kv["want"]):
                    # the one wrapper of that name belongs to the other trait (same signature)
                    if K_CLASH in known:
                        info["known_seen"][K_CLASH] = info["known_seen"].get(K_CLASH, 0) + 1
                    else:
                        viol.append({"prop": "C17", "key": K_CLASH, "what": f"wrapper {kv['wrapper']} is the only one offered for the method name {e['meth']}, which two traits of group {inst.name} share; for {e['trait']} it invokes the other trait's entry"})
                    continue
                if kv["slots"] != "1" or kv["sid"] != kv["want"]:
                    key, what = "C17:wrong-slot", f"invoked {kv['slots']} vtable entries, slot id {kv['sid']} instead of {kv['want']}"
                elif kv["cont_ok"] != "1" or kv["inst_ok"] != "1":
                    key, what = "C17:wrong-container", "did not pass the object's own container"
                elif kv["args_ok"] != "1":
                    key, what = "C17:arguments-altered", "the entry did not receive the caller's arguments unchanged and in order"
                elif kv["ret_ok"] != "1":
                    key, what = "C17:return-altered", "did not return the entry's result"
                else:
                    key, what = "C17:context-accounting", f"consuming call: instance released {kv['boxdrops']}x, context cloned {kv['ctxclones']}x / released {kv['ctxdrops']}x, clone-before-call/release-after-call order ok={kv['order_ok']}"
                viol.append({"prop": "C17", "key": key, "what": f"wrapper {kv['wrapper']} for {e['trait']}::{e['meth']} of {inst.kind} {inst.name} ({inst.cont}, {inst.ctx}): {what}"})
            arities = [len(set(len(m.args) for m in tr.methods)) >= 2 for tr in model.traits.values()]
            clash = len(set(m.name for tr in model.traits.values() for m in tr.methods)) < sum(len(tr.methods) for tr in model.traits.values())
            info["c17_nontrivial"] = bool(any(arities) or (clash and model.groups) or nt)
    shutil.rmtree(d, ignore_errors=True)
    return {"viol": viol, "info": info}


def check_model_cpp(tool, seed, idx, known, n_repro=4):
    """the same oracles for cbindgen's C++ output shape (templates; wrappers are member functions,
    the drop helper is the destructor)"""
    rng = random.Random(seed ^ 0x5EED_C99)
    model = hdr.gen_model_cpp(rng)
    raw, foreign = hdr.render_cpp(model)
    d = os.path.join(WORK, "hdr", f"p{idx % 64}-{os.getpid()}")
    shutil.rmtree(d, ignore_errors=True)
    cfg = prepare_dir(d, raw, model.config)
    out_path = os.path.join(d, "out.hpp")
    viol = []
    info = {"seed": seed, "mode": "C++", "insts": [(i.kind, i.name, i.cont, i.ctx) for i in model.insts], "config": model.config,
            "traits": {t: [(m.name, m.recv, [a[0] for a in m.args], m.ret[0]) for m in tr.methods] for t, tr in model.traits.items()},
            "groups": model.groups, "foreign": len(model.foreign), "known_seen": {}, "maybe_uninit_in_input": model.cpp_maybe_uninit}

    def known_or(key, prop, what):
        if key in known:
            info["known_seen"][key] = info["known_seen"].get(key, 0) + 1
        else:
            viol.append({"prop": prop, "key": key, "what": what})

    pre = ["-c", cfg] if model.config else []
    r, argv, _ = run_tool(tool, d, pre, ["--config", "cb.toml", "--crate", "api", "-l", "C++", "-o", out_path])
    if r.returncode != 0 or not os.path.exists(out_path):
        viol.append({"prop": "C18", "key": "C18:c++:tool-rejects-header", "what": f"cglue-bindgen failed on a C++ header in the supported shape: exit {r.returncode}: {r.stderr[:300]}"})
        return {"viol": viol, "info": info}
    out = open(out_path).read()
    errs = syntax_check(d, out_path, "C++")
    if errs:
        msg = errs[0][1]
        has_obj = any(i[0] == "obj" for i in info["insts"])
        if not model.cpp_maybe_uninit and has_obj and "RustMaybeUninit" in msg and all("RustMaybeUninit" in l for l in msg.splitlines() if "error" in l):
            known_or(K_CPP_NO_MU, "C18", f"a C++ header that never mentions MaybeUninit does not compile after post-processing: CGlueObjContainer uses RustMaybeUninit, which is only defined by rewriting cbindgen's `struct MaybeUninit;`: {msg[:300]}")
        elif model.config.get("default_container") and model.config.get("default_context") == "NoContext" and re.search(r"default (template )?argument", msg):
            known_or(K_CPP_NOCTX_CFG, "C18", f"with default_container = {model.config['default_container']!r} and the documented default_context = \"NoContext\" the C++ output does not compile (only the container parameter of each template gets a default): {msg[:300]}")
        else:
            viol.append({"prop": "C18", "key": "C18:c++:does-not-compile", "what": f"post-processed C++ header rejected by {errs[0][0]} -std=c++11: {msg[:700]}"})
    digests = {hashlib.sha1(out.encode()).hexdigest()}
    for k in range(n_repro):
        o2 = os.path.join(d, f"out{k}.hpp")
        run_tool(tool, d, pre, ["--config", "cb.toml", "--crate", "api", "--output", o2])
        if os.path.exists(o2):
            digests.add(hashlib.sha1(open(o2, "rb").read()).hexdigest())
    viol += regenerate_over_existing(tool, d, pre, out, "stale.hpp", "c++:")
    if len(digests) > 1:
        viol.append({"prop": "C18", "key": "C18:c++:not-reproducible", "what": f"{len(digests)} different outputs over {n_repro + 1} runs of the tool in fresh processes on the same C++ input and configuration"})
    posn = -1
    for f in foreign:
        p = out.find(f, posn + 1)
        if p < 0:
            lost = out.find(f) < 0
            viol.append({"prop": "C18", "key": "C18:c++:foreign-declaration-" + ("lost" if lost else "reordered"), "what": f"a declaration that does not belong to a CGlue construct is {'missing or modified' if lost else 'out of order'} in the C++ output: {f[:160]!r}"})
            break
        posn = p
    info["look_alike"] = any(any(x in f for x in ("Vtbl", "RetTmp", "Container", "Context", "CGlue", "template")) for (_, f) in model.foreign)
    info["two_ctx"] = len(set(i.ctx for i in model.insts)) >= 2
    if not errs:
        drv, plan = hdr.cpp_driver(model, out)
        open(os.path.join(d, "drv.cpp"), "w").write(drv)
        rc = subprocess.run(["g++", "-std=c++11", "-O0", "-w", "-o", os.path.join(d, "drv"), os.path.join(d, "drv.cpp"), "-I", d], stdout=subprocess.PIPE, stderr=subprocess.STDOUT, text=True, timeout=300)
        if rc.returncode != 0:
            viol.append({"prop": "C17", "key": "C17:c++:wrapper-signature", "what": f"instantiating the object types and calling the member wrappers by their documented names with the entries' own argument types does not compile: {rc.stdout[:700]}"})
        else:
            rr = subprocess.run([os.path.join(d, "drv")], stdout=subprocess.PIPE, stderr=subprocess.STDOUT, text=True, timeout=60)
            if rr.returncode != 0:
                viol.append({"prop": "C17", "key": "C17:c++:driver-crash", "what": f"the mock driver died with status {rr.returncode} while calling member wrappers"})
            lines = {}
            for l in rr.stdout.splitlines():
                if not (l.startswith("CALL ") or l.startswith("DROP ")):
                    continue
                kv = dict(x.split("=", 1) for x in l.split()[1:] if "=" in x)
                if "slots" in kv and "inst" in kv:
                    lines.setdefault((int(kv["inst"]), kv["trait"], kv["meth"]), []).append(kv)
            info["entries"] = len(plan)
            nt = False
            for e in plan:
                inst = model.insts[e["inst"]]
                rows = lines.get((e["inst"], e["trait"], e["meth"]), [])
                box, arc = inst.cont == "Box", inst.ctx == "Arc"
                where = f"of {inst.kind} {inst.name} ({inst.cont}, {inst.ctx})"
                if not rows:
                    if rr.returncode == 0:
                        viol.append({"prop": "C17", "key": "C17:c++:no-report", "what": f"no result for {e['trait']}::{e['meth']} {where}"})
                    continue
                kv = rows[0]
                if e.get("drop"):
                    if not (kv["slots"] == "0" and int(kv["boxdrops"]) == int(box) and int(kv["ctxdrops"]) == int(arc) and kv["ctxclones"] == "0"):
                        viol.append({"prop": "C17", "key": "C17:c++:destructor-accounting", "what": f"destructor {where}: released instance {kv['boxdrops']}x, context {kv['ctxdrops']}x, vtable calls {kv['slots']}"})
                    continue
                if e["recv"] == "own" and arc:
                    nt = True
                if kv["slots"] != "1" or kv["sid"] != kv["want"]:
                    key, what = "C17:c++:wrong-slot", f"invoked {kv['slots']} vtable entries, slot id {kv['sid']} instead of {kv['want']}"
                elif kv["cont_ok"] != "1" or kv["inst_ok"] != "1":
                    key, what = "C17:c++:wrong-container", "did not pass the object's own container"
                elif kv["args_ok"] != "1":
                    key, what = "C17:c++:arguments-altered", "the entry did not receive the caller's arguments unchanged and in order"
                elif kv["ret_ok"] != "1":
                    key, what = "C17:c++:return-altered", "did not return the entry's result"
                elif kv["vt_ok"] != "1":
                    key, what = "C17:c++:returned-object-vtables", "the returned object does not carry the source object's vtable pointer(s)"
                else:
                    if e["recv"] == "own" and e["ret"] == "self":
                        # consuming -> Self: counted after the returned object and the source are
                        # gone; the object's own context handle is released once (by the returned
                        # object), the wrapper's clone once (by the wrapper)
                        base_ok = int(kv["boxdrops"]) == int(box) and int(kv["ctxclones"]) == int(arc) and int(kv["ctxdrops_orig"]) == int(arc)
                        if base_ok and arc and kv["ctxdrops_clone"] == "0":
                            known_or(K_CPP_CTXLEAK, "C17", f"member wrapper {kv['wrapper']} for the consuming entry {e['trait']}::{e['meth']} {where} clones the context before the call (___ctx) and never releases that clone")
                            continue
                        acct = base_ok and int(kv["ctxdrops_clone"]) == int(arc)
                    elif e["recv"] == "own":
                        base_ok = int(kv["boxdrops"]) == int(box) and int(kv["ctxclones"]) == int(arc)
                        if base_ok and arc and kv["ctxdrops"] == "1" and kv["ctxdrops_orig"] == "1":
                            known_or(K_CPP_CTXLEAK, "C17", f"member wrapper {kv['wrapper']} for the consuming entry {e['trait']}::{e['meth']} {where} clones the context before the call (___ctx) and never releases that clone: context cloned 1x, released 1x (by the callee, for the consumed container); the C wrappers call ctx_arc_drop(&___ctx)")
                            continue
                        # the callee releases the container's own context handle, the wrapper its clone: each once
                        acct = base_ok and int(kv["ctxdrops"]) == 2 * int(arc) and int(kv["ctxdrops_orig"]) == int(arc) and int(kv["ctxdrops_clone"]) == int(arc) and kv["order_ok"] == "1"
                    else:
                        acct = kv["boxdrops"] == "0" and kv["ctxclones"] == "0" and kv["ctxdrops"] == "0"
                    if acct:
                        continue
                    key, what = "C17:c++:context-accounting", f"instance released {kv['boxdrops']}x, context cloned {kv['ctxclones']}x / released {kv['ctxdrops']}x (the object's own handle {kv['ctxdrops_orig']}x, the wrapper's clone {kv['ctxdrops_clone']}x; counted after the consumed object went out of scope), order ok={kv['order_ok']}"
                viol.append({"prop": "C17", "key": key, "what": f"member wrapper {kv['wrapper']} for {e['trait']}::{e['meth']} {where}: {what}"})
            arities = [len(set(len(m.args) for m in tr.methods)) >= 2 for tr in model.traits.values()]
            clash = len(set(m.name for tr in model.traits.values() for m in tr.methods)) < sum(len(tr.methods) for tr in model.traits.values())
            info["c17_nontrivial"] = bool(any(arities) or (clash and model.groups) or nt)
    shutil.rmtree(d, ignore_errors=True)
    return {"viol": viol, "info": info}


# ---- argv contract (C18.4) ------------------------------------------------------------------------

def argv_case(tool, seed, idx):
    rng = random.Random(seed * 977 + 1)
    model = hdr.gen_model(random.Random(seed), foreign=False)
    raw, _ = hdr.render(model)
    d = os.path.join(WORK, "hdr", f"a{idx % 64}-{os.getpid()}")
    shutil.rmtree(d, ignore_errors=True)
    cfg = prepare_dir(d, raw, {"function_prefix": "zz"})
    pool = ["--config", "cb.toml", "--crate", "api", "-l", "C", "--lang", "c", "-v", "--lockfile", "Cargo.lock", "--cpp-compat", "-q", "--profile", "release", "path/with space", "--", "-c", "x"]
    n = rng.randint(0, 7)
    post = [rng.choice(pool) for _ in range(n)]
    post = [p for p in post if p not in ("--", "-o", "--output")]
    out_flag = rng.choice([None, "-o", "--output"])
    out_path = os.path.join(d, f"res {idx}.h") if rng.random() < 0.3 else os.path.join(d, "res.h")
    expected = list(post)
    if out_flag:
        at = rng.randint(0, len(post))
        post = post[:at] + [out_flag, out_path] + post[at:]
    pre = []
    nightly = rng.random() < 0.3
    use_cfg = rng.random() < 0.6
    if use_cfg:
        pre += [rng.choice(["-c", "--config"]), cfg]
    if nightly:
        pre = (["+nightly"] + pre) if rng.random() < 0.5 else (pre + ["+nightly"])
    preexisting = out_flag is not None and rng.random() < 0.5
    if preexisting:
        open(out_path, "w").write("/* an older, longer header */\n" + "typedef int stale_t;\n" * 4000)
    r, argv, via = run_tool(tool, d, pre, post)
    viol = []
    case = {"pre": pre, "post": post, "output_preexisting": preexisting}
    if r.returncode != 0:
        viol.append({"prop": "C18", "key": "C18:argv:tool-fails", "what": f"exit {r.returncode} for arguments {pre} -- {post}: {r.stderr[:200]}"})
    else:
        if argv != expected:
            viol.append({"prop": "C18", "key": "C18:argv:forwarding", "what": f"arguments after `--` minus the output option should reach cbindgen unchanged and in order: expected {expected}, cbindgen got {argv} (tool arguments {pre})"})
        if nightly != via:
            viol.append({"prop": "C18", "key": "C18:argv:nightly", "what": f"+nightly={nightly} but cbindgen was {'run through rustup' if via else 'run directly'}"})
        produced = None
        if out_flag:
            if not os.path.exists(out_path):
                viol.append({"prop": "C18", "key": "C18:argv:output", "what": f"the processed header was not written to the path given with {out_flag}"})
            else:
                produced = open(out_path).read()
                if "stale_t" in produced:
                    viol.append({"prop": "C18", "key": "C18:output-path-not-replaced", "what": "the output path held an older, longer file; after the run it still contains part of it"})
                if r.stdout.strip():
                    viol.append({"prop": "C18", "key": "C18:argv:output", "what": "output was printed to stdout although an output path was given"})
        else:
            produced = r.stdout
        if produced is not None:
            if "Forward declarations for vtables" not in produced and "REF_SLICE" not in produced:
                viol.append({"prop": "C18", "key": "C18:argv:output", "what": "what was delivered is not the processed header"})
            has_prefix = "zz_" in produced
            if use_cfg != has_prefix:
                viol.append({"prop": "C18", "key": "C18:argv:config", "what": f"config file given before `--`: {use_cfg}, but function_prefix {'was' if has_prefix else 'was not'} applied"})
    shutil.rmtree(d, ignore_errors=True)
    return {"viol": viol, "case": case}


def run_many(fn, args_list, workers=14):
    with ThreadPoolExecutor(max_workers=workers) as ex:
        return list(ex.map(lambda a: fn(*a), args_list))
