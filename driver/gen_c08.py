"""C08: exhaustive (enabled set x requested set x operation x container) matrix for trait groups."""
import os, itertools
from common import ROOT, REPO, WORK
from batch import write_if_changed

CARGO = """[package]
name = "c08cells"
version = "0.1.0"
edition = "2021"

[dependencies]
cglue = {{ path = "{repo}/cglue" }}
pbsupport = {{ path = "{root}/harness/pbsupport" }}
serde = {{ version = "1", features = ["derive"] }}

[workspace]

[profile.dev]
opt-level = 0
debug = 0
incremental = false
"""

# optional trait pool: (trait name as written in the group, alias or None, method, arg type, trait id)
OPT = [
    ("Oa", None, "oa_id", "u32", 11),
    ("TT<u8>", "TTa", "tt_id", "u8", 12),     # two aliased instantiations of one generic trait
    ("OB", None, "ob_id", "u32", 13),         # sorts BEFORE `Oa` byte-wise, after it when case is ignored
    ("TT<u64>", "TTb", "tt_id", "u64", 14),
]
MAND = [("M0", "m0_id", 1), ("M1", "m1_id", 2)]


def lc(name):
    return name.lower()


def family(n, m):
    """group with m mandatory and the first n optional traits"""
    opts = OPT[:n]
    gname = f"G{n}m{m}"
    mand = [x[0] for x in MAND[:m]]
    opt_txt = ", ".join(f"{t} = {a}" if a else t for (t, a, _, _, _) in opts)
    if m == 0:
        mand_txt = "{}"
    elif m == 1:
        mand_txt = mand[0]
    else:
        mand_txt = "{ " + ", ".join(mand) + " }"
    decl = f"cglue_trait_group!({gname}, {mand_txt}, {{ {opt_txt} }});"
    return gname, mand, opts, decl


def emit_family(n, m):
    gname, mand, opts, decl = family(n, m)
    L = [decl, ""]
    # implementing types: one per enabled subset
    for e in range(1 << n):
        ty = f"I{n}m{m}e{e}"
        L.append(f"pub struct {ty} {{ core: Core }}")
        L.append(f"impl {ty} {{ fn new(sh: Arc<Shared>) -> Self {{ {ty} {{ core: Core::new(sh, 0x{n}{m}00 + {e}) }} }} }}")
        for (t, meth, tid) in MAND[:m]:
            L.append(f"impl {t} for {ty} {{ fn {meth}(&self) -> u64 {{ self.core.enter({tid}, 0) }} }}")
        # every type implements every optional trait; only cglue_impl_group decides what is enabled
        done = set()
        for (t, a, meth, argt, tid) in opts:
            L.append(f"impl {t} for {ty} {{ fn {meth}(&self, v: {argt}) -> u64 {{ self.core.enter({tid}, v as u64) }} }}")
        en = [(f"{t} = {a}" if a else t) for k, (t, a, _, _, _) in enumerate(opts) if e >> k & 1]
        L.append(f"cglue_impl_group!({ty}, {gname}, {{ {', '.join(en)} }});")
        L.append("")
    # names used by the cast macros
    def req_names(r):
        return [(a or t) for k, (t, a, _, _, _) in enumerate(opts) if r >> k & 1]

    for cont, gty in (("boxed", f"{gname}Box<'a>"), ("bymut", f"{gname}Mut<'a>"), ("byref", f"{gname}Ref<'a>"), ("arcbox", f"{gname}ArcBox<'a>")):
        # all_checks: bitmask over requested subsets of what check! answers
        L.append(f"fn checks_{gname}_{cont}<'a>(g: &{gty}) -> u32 {{")
        L.append("    let mut m = 0u32;")
        for r in range(1, 1 << n):
            L.append(f"    if g.check_impl_{'_'.join(x.lower() for x in sorted(req_names(r)))}() {{ m |= 1 << {r}; }}")
        L.append("    m")
        L.append("}")
        # the operations
        L.append(f"fn ops_{gname}_{cont}<'a>(mut g: {gty}, sh: &Shared, twin: &Shared, enabled: u32, req: u32, op: u8, iid: u64) -> Result<bool, Fail> {{")
        L.append("    let expect = req & enabled == req;")
        L.append("    let mut want_checks = 0u32; for r in 1..(1u32 << %d) { if r & enabled == r { want_checks |= 1 << r; } }" % n)
        L.append(f"    let before = checks_{gname}_{cont}(&g);")
        L.append("    if before != want_checks { return Err(Fail::new(\"C08:check-matrix\", format!(\"check! answers {:#b} over all requested subsets, expected {:#b} (enabled {:#b})\", before, want_checks, enabled))); }")
        # mandatory traits always callable
        for (t, meth, tid) in MAND[:m]:
            L.append(f"    call_and_compare(sh, twin, iid, {tid}, 0, g.{meth}(), \"mandatory {t} before any cast\")?;")
        L.append("    match (req, op) {")
        for r in range(1, 1 << n):
            names = " + ".join(req_names(r))
            # the same request with every other trait spelled as a path (`self::Name`): only the
            # answer is looked at (the result type is whatever the macro makes of it)
            names_path = " + ".join((("self::" + x) if j % 2 == 1 else x) for j, x in enumerate(req_names(r)))
            calls = []
            for (t, meth, tid) in MAND[:m]:
                calls.append((f"x.{meth}()", tid, 0, t))
            for k, (t, a, meth, argt, tid) in enumerate(opts):
                if r >> k & 1:
                    calls.append((f"x.{meth}({k + 3} as {argt})", tid, k + 3, a or t))

            def call_block(indent):
                return "\n".join(f"{indent}call_and_compare(sh, twin, iid, {tid}, {arg}, {expr}, \"{tn} after a successful cast\")?;" for (expr, tid, arg, tn) in calls)

            # check
            chk = "check_impl_" + "_".join(x.lower() for x in sorted(req_names(r)))
            L.append(f"        ({r}, 0) => {{ let ok = g.{chk}(); if ok != expect {{ return Err(mismatch(\"check\", ok, enabled, req)); }} let ok = as_ref!(g impl {names_path}).is_some(); if ok != expect {{ return Err(mismatch(\"as_ref (path-spelled request)\", ok, enabled, req)); }} let ok = as_mut!(g impl {names_path}).is_some(); if ok != expect {{ return Err(mismatch(\"as_mut (path-spelled request)\", ok, enabled, req)); }} }}")
            # as_ref
            L.append(f"        ({r}, 1) => {{ match as_ref!(g impl {names}) {{ Some(x) => {{ if !expect {{ return Err(mismatch(\"as_ref\", true, enabled, req)); }}\n{call_block('            ')} }} None => {{ if expect {{ return Err(mismatch(\"as_ref\", false, enabled, req)); }} }} }} }}")
            # as_mut
            L.append(f"        ({r}, 2) => {{ match as_mut!(g impl {names}) {{ Some(x) => {{ if !expect {{ return Err(mismatch(\"as_mut\", true, enabled, req)); }}\n{call_block('            ')} }} None => {{ if expect {{ return Err(mismatch(\"as_mut\", false, enabled, req)); }} }} }} }}")
            # cast + upcast
            L.append(f"        ({r}, 3) => {{ match cast!(g impl {names}) {{ Some(x) => {{ if !expect {{ return Err(mismatch(\"cast\", true, enabled, req)); }}\n{call_block('            ')}\n            let back = x.upcast(); let after = checks_{gname}_{cont}(&back); if after != want_checks {{ return Err(Fail::new(\"C08:upcast\", format!(\"after cast + upcast check! answers {{:#b}}, expected {{:#b}}\", after, want_checks))); }}"
                     + "".join(f" call_and_compare(sh, twin, iid, {tid}, 0, back.{meth}(), \"mandatory {t} after upcast\")?;" for (t, meth, tid) in MAND[:m])
                     + f" return Ok(expect); }} None => {{ if expect {{ return Err(mismatch(\"cast\", false, enabled, req)); }} return Ok(expect); }} }} }}")
            # into
            L.append(f"        ({r}, 4) => {{ match into!(g impl {names}) {{ Some(x) => {{ if !expect {{ return Err(mismatch(\"into\", true, enabled, req)); }}\n{call_block('            ')}\n            return Ok(expect); }} None => {{ if expect {{ return Err(mismatch(\"into\", false, enabled, req)); }} return Ok(expect); }} }} }}")
        L.append("        _ => unreachable!(),")
        L.append("    }")
        L.append(f"    let after = checks_{gname}_{cont}(&g); if after != want_checks {{ return Err(Fail::new(\"C08:check-matrix\", format!(\"a non-consuming operation changed what check! answers: {{:#b}} -> {{:#b}}\", before, after))); }}")
        L.append("    Ok(expect)")
        L.append("}")
    # dispatcher per enabled set and container
    L.append(f"pub fn cell_{gname}(enabled: u32, req: u32, op: u8, cont: u8) -> Result<bool, Fail> {{")
    L.append("    let sh = Shared::new(77); let twin = Shared::new(77);")
    L.append("    match enabled {")
    for e in range(1 << n):
        ty = f"I{n}m{m}e{e}"
        iid = f"0x{n}{m}00 + {e}"
        L.append(f"        {e} => {{ let imp = {ty}::new(sh.clone()); let tok = imp.core.tok.id(); let _twin_core = Core::new(twin.clone(), {iid});")
        L.append("            let r = match cont {")
        L.append(f"                0 => {{ let g = group_obj!(imp as {gname}); ops_{gname}_boxed(g, &sh, &twin, enabled, req, op, {iid}) }}")
        L.append(f"                1 => {{ let mut imp = imp; let r = {{ let g = group_obj!(&mut imp as {gname}); ops_{gname}_bymut(g, &sh, &twin, enabled, req, op, {iid}) }}; if tok_drops(tok) != 0 {{ return Err(Fail::new(\"C08:borrowed-dropped\", \"a by-&mut group dropped its instance\".to_string())); }} drop(imp); r }}")
        L.append(f"                2 => {{ let r = {{ let g = group_obj!(&imp as {gname}); ops_{gname}_byref(g, &sh, &twin, enabled, req, op, {iid}) }}; if tok_drops(tok) != 0 {{ return Err(Fail::new(\"C08:borrowed-dropped\", \"a by-& group dropped its instance\".to_string())); }} drop(imp); r }}")
        L.append(f"                _ => {{ let arc = Arc::new(CtxPayload(1)); let r = {{ let g = group_obj!((imp, cglue::trait_group::Opaquable::into_opaque(CArc::<CtxPayload>::from(arc.clone()))) as {gname}); ops_{gname}_arcbox(g, &sh, &twin, enabled, req, op, {iid}) }}; if Arc::strong_count(&arc) != 1 {{ return Err(Fail::new(\"C08:ctx-count\", format!(\"context count {{}} after the group and all casts are gone\", Arc::strong_count(&arc)))); }} r }}")
        L.append("            };")
        L.append("            if tok_drops(tok) != 1 { return Err(Fail::new(\"C08:drop-count\", format!(\"the instance was dropped {} times over the life of the group and its casts\", tok_drops(tok)))); }")
        L.append("            r }")
    L.append("        _ => unreachable!(),")
    L.append("    }")
    L.append("}")
    return "\n".join(L)


HEADER = """#![allow(unused_variables, unused_mut, unused_imports, dead_code, unreachable_code, clippy::all, non_snake_case, non_camel_case_types)]
use pbsupport::*;
pub use cglue::*;
use cglue::prelude::v1::*;
use pbsupport::verifkit::{Fail, Ctx, Args, Info, CaseResult};
use std::sync::Arc;

#[global_allocator]
static A: pbsupport::verifkit::alloc::Tracking = pbsupport::verifkit::alloc::Tracking;

#[cglue_trait] pub trait M0 { fn m0_id(&self) -> u64; }
#[cglue_trait] pub trait M1 { fn m1_id(&self) -> u64; }
#[cglue_trait] pub trait Oa { fn oa_id(&self, v: u32) -> u64; }
#[cglue_trait] pub trait OB { fn ob_id(&self, v: u32) -> u64; }
#[cglue_trait] pub trait TT<T> { fn tt_id(&self, v: T) -> u64; }

fn tok_drops(t: u32) -> u32 { pbsupport::verifkit::tok::drops(t) }

fn mismatch(op: &str, got: bool, enabled: u32, req: u32) -> Fail {
    Fail::new(format!("C08:{op}"), format!("{op} for requested set {req:#b} on a type with enabled set {enabled:#b} {}", if got { "succeeded although a requested trait is not enabled" } else { "failed although every requested trait is enabled" }))
}

/// The call must have reached *this* instance, in the slot of that trait, with that argument, and
/// returned what the implementor computed (the twin core replays the same event to predict it).
fn call_and_compare(sh: &Shared, twin: &Shared, iid: u64, tid: u32, arg: u64, got: u64, what: &str) -> Result<(), Fail> {
    let log = sh.log();
    let last = log.last().copied();
    if last.map(|e| (e.method, e.args)) != Some((tid, arg)) {
        return Err(Fail::new("C08:dispatch", format!("{what}: expected the call to reach trait #{tid} with argument {arg}, the instance saw {:?}", last)));
    }
    if sh.last_instance() != iid {
        return Err(Fail::new("C08:wrong-instance", format!("{what}: call reached instance {:#x}, the group was built from {:#x}", sh.last_instance(), iid)));
    }
    // replay on the twin to predict the return value
    let mut h = pbsupport::verifkit::Fnv::new();
    h.u64(twin.state()).u64(tid as u64).u64(arg);
    let want = h.get();
    twin.state.store(want, std::sync::atomic::Ordering::SeqCst);
    if got != want {
        return Err(Fail::new("C08:dispatch", format!("{what}: returned {got:#x}, the implementor computes {want:#x} (a different instance or slot answered)")));
    }
    Ok(())
}

#[derive(serde::Serialize, serde::Deserialize, Debug, Clone)]
pub struct Cell { pub n: u8, pub m: u8, pub enabled: u32, pub req: u32, pub op: u8, pub cont: u8 }
"""

MAIN = """
fn run_cell(c: &Cell) -> CaseResult {
    let (r, rep) = pbsupport::verifkit::tracked_confirmed(|| match (c.n, c.m) {
%s
        _ => Err(Fail::new("harness", "no such family".to_string())),
    });
    let expect = r?;
    if !rep.clean() {
        return Err(Fail::new(if rep.misuses.is_empty() { "C08:leak" } else { "C08:alloc-misuse" }, rep.describe()));
    }
    let bad = pbsupport::verifkit::tok::mismatches(|_| 1);
    if !bad.is_empty() { return Err(Fail::new("C08:drop-count", format!("tokens with drop count != 1: {:?}", &bad[..bad.len().min(4)]))); }
    let nt = c.n >= 2 && c.req != c.enabled;
    Ok(Info::new(nt).class(["check", "as_ref", "as_mut", "cast", "into"][c.op as usize]).class(["box", "mut", "ref", "arcbox"][c.cont as usize]).class(if expect { "succeeds" } else { "refused" }).class(format!("n={}", c.n)))
}

fn main() {
    pbsupport::verifkit::quiet_panics();
    let args = Args::parse();
    let ctx = Ctx::new(args);
    let fams: &[(u8, u8)] = &[%s];
    if let Some(c) = ctx.replay_for::<Cell>("cells") {
        ctx.eval("cells", &c, run_cell);
    } else if !ctx.is_replay() {
        'all: for &(n, m) in fams {
            for enabled in 0..(1u32 << n) { for req in 1..(1u32 << n) { for op in 0..5u8 { for cont in 0..4u8 {
                let c = Cell { n, m, enabled, req, op, cont };
                if !ctx.eval("cells", &c, run_cell) { break 'all; }
            } } } }
        }
    }
    let code = ctx.finish("every cell of (group family with n optional traits incl. two aliased instantiations of one generic trait and m mandatory traits) x (enabled set of the implementing type: all 2^n) x (requested set: all 2^n-1) x {check, as_ref, as_mut, cast(+upcast), into} x {Box, &mut, &, Box with CArc context}; oracle: success iff requested is a subset of enabled; after success every mandatory and requested method reaches the same instance in the right slot with the right argument and returns the implementor's value; cast+upcast preserves the full check matrix; instance dropped exactly once, context count restored. Non-trivial = n >= 2 and requested != enabled (position matters)", &[], true);
    std::process::exit(code);
}
"""


def make(tier):
    fams = [(1, 1), (2, 0), (2, 1), (3, 1), (3, 2), (4, 0), (4, 1), (4, 2)]
    name = f"c08-{tier}"
    d = os.path.join(WORK, name)
    os.makedirs(os.path.join(d, "src"), exist_ok=True)
    write_if_changed(os.path.join(d, "Cargo.toml"), CARGO.format(repo=REPO, root=ROOT))
    lock = os.path.join(d, "Cargo.lock")
    if not os.path.exists(lock):
        open(lock, "w").write(open(os.path.join(ROOT, "harness", "Cargo.lock")).read())
    body = [HEADER]
    arms = []
    for (n, m) in fams:
        body.append(emit_family(n, m))
        arms.append(f"        ({n}, {m}) => cell_G{n}m{m}(c.enabled, c.req, c.op, c.cont),")
    body.append(MAIN % ("\n".join(arms), ", ".join(f"({n}, {m})" for (n, m) in fams)))
    write_if_changed(os.path.join(d, "src", "main.rs"), "\n".join(body))
    return d


# ---- the same matrix, small, with the `layout_checks` feature of the library switched on -------
# (the generator has feature-gated branches in the cast functions; the big cell crate cannot be
# built that way because pbsupport's own traits would then need StableAbi everywhere)

CARGO_LC = """[package]
name = "c08lc"
version = "0.1.0"
edition = "2021"

[dependencies]
cglue = {{ path = "{repo}/cglue", features = ["layout_checks"] }}
abi_stable = "0.10"
verifkit = {{ path = "{root}/harness/verifkit" }}
serde = {{ version = "1", features = ["derive"] }}
serde_json = "1"

[workspace]

[profile.dev]
opt-level = 0
debug = 0
incremental = false
"""

LC_OPT = [("Oa", "oa_id", 11), ("OB", "ob_id", 13), ("Oc", "oc_id", 17)]


def make_lc():
    d = os.path.join(WORK, "c08lc")
    os.makedirs(os.path.join(d, "src"), exist_ok=True)
    write_if_changed(os.path.join(d, "Cargo.toml"), CARGO_LC.format(repo=REPO, root=ROOT))
    lock = os.path.join(d, "Cargo.lock")
    if not os.path.exists(lock):
        open(lock, "w").write(open(os.path.join(ROOT, "harness", "Cargo.lock")).read())
    n = len(LC_OPT)
    L = ["#![allow(unused, non_snake_case, clippy::all)]", "pub use cglue::*;", "use cglue::prelude::v1::*;", "use verifkit::{Args, Ctx, Fail, Info, CaseResult};", "",
         "#[cglue_trait] pub trait M0 { fn m0_id(&self) -> u64; }"]
    for (t, meth, tid) in LC_OPT:
        L.append(f"#[cglue_trait] pub trait {t} {{ fn {meth}(&self, v: u32) -> u64; }}")
    L.append("cglue_trait_group!(GL, M0, { " + ", ".join(t for (t, _, _) in LC_OPT) + " });")
    L.append("fn mix(a: u64, b: u64) -> u64 { (a ^ b.rotate_left(23)).wrapping_mul(0x9E3779B97F4A7C15) }")
    for e in range(1 << n):
        ty = f"S{e}"
        L.append(f"pub struct {ty}(pub u64);")
        L.append(f"impl M0 for {ty} {{ fn m0_id(&self) -> u64 {{ mix(self.0, 1) }} }}")
        en = [x for k, x in enumerate(LC_OPT) if e >> k & 1]
        for (t, meth, tid) in en:
            L.append(f"impl {t} for {ty} {{ fn {meth}(&self, v: u32) -> u64 {{ mix(self.0, {tid} + v as u64) }} }}")
        L.append(f"cglue_impl_group!({ty}, GL, {{ " + ", ".join(t for (t, _, _) in en) + " });")
    L.append("#[derive(serde::Serialize, serde::Deserialize, Debug, Clone)]")
    L.append("pub struct Cell { pub enabled: u32, pub req: u32, pub op: u8, pub cont: u8 }")

    def names(r):
        return [t for k, (t, _, _) in enumerate(LC_OPT) if r >> k & 1]

    # one function per (container): generic over the implementor through a macro
    L.append("macro_rules! cell_for { ($ty:ident, $c:expr) => {{ let c: &Cell = $c; let id = 0x5000 + c.enabled as u64; let expect = c.req & c.enabled == c.req;")
    L.append("    let mut owned = $ty(id);")
    L.append("    match c.cont % 3 { 0 => { let g = group_obj!($ty(id) as GL); ops(g, c, id, expect) } 1 => { let g = group_obj!(&mut owned as GL); ops_mut(g, c, id, expect) } _ => { let g = group_obj!(&owned as GL); ops_ref(g, c, id, expect) } } }} }")
    for (fname, gty, has_mut) in (("ops", "GLBox<'a>", True), ("ops_mut", "GLMut<'a>", True), ("ops_ref", "GLRef<'a>", False)):
        L.append(f"fn {fname}<'a>(mut g: {gty}, c: &Cell, id: u64, expect: bool) -> Result<bool, Fail> {{")
        L.append("    let bad = |what: &str, got: bool| Fail::new(format!(\"C08:{what} (layout_checks)\"), format!(\"{what} for requested set {:#b} on a type with enabled set {:#b} {} (library built with layout_checks)\", c.req, c.enabled, if got { \"succeeded although a requested trait is not enabled\" } else { \"was refused although all requested traits are enabled\" }));")
        L.append("    if g.m0_id() != mix(id, 1) { return Err(Fail::new(\"C08:dispatch\", \"mandatory trait answers wrongly\".to_string())); }")
        L.append("    match (c.req, c.op) {")
        for r in range(1, 1 << n):
            nm = " + ".join(names(r))
            chk = "check_impl_" + "_".join(x.lower() for x in sorted(names(r)))
            calls = " ".join(f"if x.{meth}(7) != mix(id, {tid} + 7) {{ return Err(Fail::new(\"C08:dispatch\", \"{t} after a successful cast answers wrongly\".to_string())); }}" for k, (t, meth, tid) in enumerate(LC_OPT) if r >> k & 1)
            L.append(f"        ({r}, 0) => {{ let ok = g.{chk}(); if ok != expect {{ return Err(bad(\"check\", ok)); }} }}")
            L.append(f"        ({r}, 1) => {{ match as_ref!(g impl {nm}) {{ Some(x) => {{ if !expect {{ return Err(bad(\"as_ref\", true)); }} {calls} }} None => {{ if expect {{ return Err(bad(\"as_ref\", false)); }} }} }} }}")
            if has_mut:
                L.append(f"        ({r}, 2) => {{ match as_mut!(g impl {nm}) {{ Some(x) => {{ if !expect {{ return Err(bad(\"as_mut\", true)); }} {calls} }} None => {{ if expect {{ return Err(bad(\"as_mut\", false)); }} }} }} }}")
            L.append(f"        ({r}, 3) => {{ match cast!(g impl {nm}) {{ Some(x) => {{ if !expect {{ return Err(bad(\"cast\", true)); }} {calls} }} None => {{ if expect {{ return Err(bad(\"cast\", false)); }} }} }} return Ok(expect); }}")
            L.append(f"        ({r}, 4) => {{ match into!(g impl {nm}) {{ Some(x) => {{ if !expect {{ return Err(bad(\"into\", true)); }} {calls} }} None => {{ if expect {{ return Err(bad(\"into\", false)); }} }} }} return Ok(expect); }}")
        L.append("        _ => {}")
        L.append("    }")
        L.append("    if g.m0_id() != mix(id, 1) { return Err(Fail::new(\"C08:dispatch\", \"mandatory trait answers wrongly after the operation\".to_string())); }")
        L.append("    Ok(expect)")
        L.append("}")
    L.append("fn run_cell(c: &Cell) -> CaseResult {")
    L.append("    let r = match c.enabled {")
    for e in range(1 << n):
        L.append(f"        {e} => cell_for!(S{e}, c),")
    L.append("        _ => Err(Fail::new(\"harness\", \"no such type\".to_string())),")
    L.append("    };")
    L.append("    let expect = r?;")
    L.append("    Ok(Info::new(c.req != c.enabled).class([\"check\", \"as_ref\", \"as_mut\", \"cast\", \"into\"][c.op as usize]).class(if expect { \"succeeds\" } else { \"refused\" }))")
    L.append("}")
    L.append("""
fn main() {
    verifkit::quiet_panics();
    let ctx = Ctx::new(Args::parse());
    if let Some(c) = ctx.replay_for::<Cell>("cells-layout-checks") {
        ctx.eval("cells-layout-checks", &c, run_cell);
    } else if !ctx.is_replay() {
        'all: for enabled in 0..%du32 { for req in 1..%du32 { for op in 0..5u8 { for cont in 0..3u8 {
            let c = Cell { enabled, req, op, cont };
            if !ctx.eval("cells-layout-checks", &c, run_cell) { break 'all; }
        } } } }
    }
    let code = ctx.finish("the cast matrix once more with the library's layout_checks feature on (other code paths in the generated cast functions): one mandatory and three optional traits, all 8 enabled sets x all 7 requested sets x {check, as_ref, as_mut, cast, into} x {Box, &mut, &}; success iff requested is a subset of enabled, and after success the requested methods answer for the same instance. Non-trivial = requested != enabled", &[], true);
    std::process::exit(code);
}
""" % (1 << n, 1 << n))
    write_if_changed(os.path.join(d, "src", "main.rs"), "\n".join(L))
    return d
