"""Emit Rust source for generated traits: definition, stateful implementor, differential driver."""
import gen

HEADER = """#![allow(unused_variables, unused_mut, unused_imports, unused_parens, dead_code, clippy::all, non_snake_case, unused_unsafe, unused_assignments, unused_macros)]
use pbsupport::*;
use cglue::*;
use cglue::prelude::v1::*;
use pbsupport::verifkit::{Fail, Ctx};
use std::sync::Arc;
use std::sync::atomic::Ordering::SeqCst;
"""


def trait_def(t):
    out = ["#[cglue_trait]"]
    if t.int_result:
        out.append("#[int_result]")
    out.append(f"pub trait {t.name} {{")
    for (name, attr, bound) in t.assocs():
        out.append(f"    {attr}")
        out.append(f"    type {name}: {bound};")
    for m in t.methods:
        for a in m.attrs:
            out.append(f"    {a}")
        if m.default_body:
            out.append(f"    {m.sig()} {m.default_expr()}")
        else:
            out.append(f"    {m.sig()};")
    out.append("}")
    return "\n".join(out)


def impl_def(t, ty="Imp"):
    out = [f"impl {t.name} for {ty} {{"]
    for (name, attr, bound) in t.assocs():
        out.append(f"    type {name} = LeafImp;")
    for m in t.methods:
        if m.default_body and not m.overridden:
            continue  # the implementor relies on the provided body
        this = {"ref": "let this = self;", "mut": "let this = self;", "own": "let mut this = self;",
                "pinref": "let this = self.get_ref();", "pinmut": "let this = self.get_mut();"}[m.recv]
        digest = " ".join(a.impl_digest() for a in m.args)
        saw = " ".join(a.impl_saw() for a in m.args)
        post = " ".join(a.impl_post() for a in m.args)
        has_post = any(isinstance(a, (gen.ACallback, gen.AIter)) for a in m.args)
        body = [f"        {this}", "        let mut hh = fnv();", f"        {digest}",
                f"        let h = this.core.enter({m.idx}, hh.get());", f"        {saw}"]
        if has_post:
            body.append("        let mut post = fnv();")
            body.append(f"        {post}")
            body.append(f"        this.core.enter_post({m.idx}, post.get());")
        else:
            body.append(f"        {post}")
        body.append(f"        {m.ret.impl_expr()}")
        out.append(f"    {m.sig(impl=True)} {{")
        out += body
        out.append("    }")
    out.append("}")
    return "\n".join(out)


def call_expr(m, obj, side):
    args = ", ".join(a.pass_(side) for a in m.args)
    if m.recv == "pinref":
        recv = f"::core::pin::Pin::new(&*{obj})"
    elif m.recv == "pinmut":
        recv = f"::core::pin::Pin::new(&mut *{obj})"
    elif m.recv == "own":
        recv = f"{obj}"
    else:
        recv = f"{obj}"
    e = f"{recv}.{m.name}({args})"
    if m.unsafe:
        e = f"unsafe {{ {e} }}"
    return e


def arm(t, m):
    """One match arm of the driver: perform method m on both sides and compare."""
    L = [f"            {m.idx} => {{", f"                let mname = \"{t.name}::{m.name}\";", "                let mut g = Gen::new(seed);"]
    for a in m.args:
        L.append("                " + a.setup())
    nd = " || ".join([a.nondefault() for a in m.args if a.wrapped] + ([m.ret.nondefault()] if m.ret.wrapped else [])) or "false"
    if m.recv == "own":
        L.append("                let ow = o.take().unwrap(); let or_ = r.take().unwrap();")
        L.append(f"                let rw = {call_expr(m, 'ow', 'w')};")
        L.append(f"                let rr = {call_expr(m, 'or_', 'r')};")
        L.append("                fl.transfers += 1;")
    else:
        L.append("                let ow = o.as_mut().unwrap(); let or_ = r.as_mut().unwrap();")
        L.append(f"                let rw = {call_expr(m, 'ow', 'w')};")
        L.append(f"                let rr = {call_expr(m, 'or_', 'r')};")
    # 1. routing / state / log
    L.append("                check_step(sw, sr, wid, mname)?;")
    # 2. addresses of reference-like arguments as seen by the wrapped implementor
    runs_impl = not (m.default_body and not m.overridden)  # otherwise the trait's provided body runs on both sides
    exp = [e for a in m.args for e in a.expect_ptrs()] if runs_impl else []
    if exp:
        L.append(f"                {{ let seen = sw.take_ptrs(); let want: Vec<(usize, usize)> = vec![{', '.join(exp)}]; if seen != want {{ return Err(Fail::new(\"C02:arg-address\", format!(\"method {{}}: reference-like arguments arrived as (address,len) {{:x?}}, the caller passed {{:x?}}\", mname, seen, want))); }} }}")
    # 3. returns
    L.append(f"                let nondefault = {nd};")
    L.append("                " + m.ret.compare())
    # 4. caller-visible effects on arguments
    for a in m.args:
        if a.after() and runs_impl:
            L.append("                " + a.after())
    L.append("                if nondefault { fl.wrapped_nondefault = true; }")
    if m.ret.transfers():
        L.append("                fl.transfers += 1;")
        if isinstance(m.ret, gen.RChild) and m.ret.mode != "owned":
            L.append("                fl.borrowed_children += 1;")
        else:
            L.append("                fl.ctx_derived += 1;")
    if isinstance(m.ret, (gen.RIntRes, gen.RResChild)):
        L.append("                fl.int_result_calls += 1;")
    if m.mutating() or m.recv == "own":
        L.append("                fl.mutated = true;")
    elif not isinstance(m.ret, gen.RUnit):
        L.append("                if fl.mutated { fl.mutated_then_read = true; }")
    L.append("            }")
    return "\n".join(L)


def driver_def(t):
    bounds = "".join(f", O::{n}: {b.split(' ')[0]}" for (n, _, b) in t.assocs())
    arms = "\n".join(arm(t, m) for m in t.methods)
    return f"""
pub const NAME: &str = "{t.name}";
pub const NMETH: usize = {len(t.methods)};
pub const KINDS: &[&str] = &[{', '.join('"%s"' % k for k in t.kinds())}];

fn drive<O: {t.name} + Unpin>(o: O, r: Imp, sw: &Shared, sr: &Shared, wid: u64, ops: &[(u8, u64)], fl: &mut Flags, live: &dyn Fn(u64, &Flags) -> Result<(), Fail>) -> Result<(), Fail>
where O: Sized{bounds}
{{
    let mut o = Some(o);
    let mut r = Some(r);
    macro_rules! live_children_check {{ () => {{ live(1 + o.is_some() as u64, fl)?; }}; }}
    fl.nmeth = NMETH as u32;
    for (choice, seed) in ops.iter().copied() {{
        if o.is_none() {{ break; }}
        let seed = seed;
        let mi = (choice as usize * NMETH) >> 8;
        fl.calls += 1;
        fl.methods |= 1 << mi;
        match mi {{
{arms}
            _ => unreachable!(),
        }}
        if o.is_some() {{ live(1, fl)?; }}
    }}
    Ok(())
}}
"""


def kinds_def(t):
    """run_case: build the wrapped object of the requested container kind and drive it."""
    T = t.name
    arms = []
    for i, k in enumerate(t.kinds()):
        if k == "box":
            body = f"let o = trait_obj!(imp_w as {T}); drive(o, imp_r, &sw, &sr, WID, ops, &mut fl, &no_ctx)?;"
        elif k == "cbox":
            body = f"let o = trait_obj!(CBox::from(imp_w) as {T}); drive(o, imp_r, &sw, &sr, WID, ops, &mut fl, &no_ctx)?;"
        elif k == "box_arcctx":
            body = (f"let o = trait_obj!((imp_w, CArc::<CtxPayload>::from(ctx.clone())) as {T});"
                    f" drive(o, imp_r, &sw, &sr, WID, ops, &mut fl, &arc_live)?;")
        elif k == "box_cntctx":
            body = (f"let o = trait_obj!((imp_w, CountCtx::new(&cnt)) as {T});"
                    f" drive(o, imp_r, &sw, &sr, WID, ops, &mut fl, &cnt_live)?;")
        elif k == "mut":
            body = (f"let mut w = imp_w; {{ let o = trait_obj!(&mut w as {T}); drive(o, imp_r, &sw, &sr, WID, ops, &mut fl, &no_ctx)?; }}"
                    f" borrowed_not_dropped(wtok)?; drop(w);")
        elif k == "mut_arcctx":
            body = (f"let mut w = imp_w; {{ let o = trait_obj!((&mut w, CArc::<CtxPayload>::from(ctx.clone())) as {T}); drive(o, imp_r, &sw, &sr, WID, ops, &mut fl, &arc_live)?; }}"
                    f" borrowed_not_dropped(wtok)?; drop(w);")
        elif k == "ref":
            body = (f"let w = imp_w; {{ let o = trait_obj!(&w as {T}); drive(o, imp_r, &sw, &sr, WID, ops, &mut fl, &no_ctx)?; }}"
                    f" borrowed_not_dropped(wtok)?; drop(w);")
        elif k == "ref_arcctx":
            body = (f"let w = imp_w; {{ let o = trait_obj!((&w, CArc::<CtxPayload>::from(ctx.clone())) as {T}); drive(o, imp_r, &sw, &sr, WID, ops, &mut fl, &arc_live)?; }}"
                    f" borrowed_not_dropped(wtok)?; drop(w);")
        elif k == "arcsome":
            body = f"let o = trait_obj!(CArcSome::from(imp_w) as {T}); drive(o, imp_r, &sw, &sr, WID, ops, &mut fl, &no_ctx)?;"
        else:
            raise ValueError(k)
        arms.append(f"        {i} => {{ {body} }}")
    arms = "\n".join(arms)
    return f"""
const WID: u64 = 0x77;

pub fn run_case(vc: &Ctx, kind: u8, ops: &[(u8, u64)]) -> Result<Flags, Fail> {{
    let mut fl = Flags::default();
    let kind = kind as usize % KINDS.len();
    fl.kind = KINDS[kind];
    let (res, rep) = pbsupport::verifkit::tracked_confirmed(|| -> Result<Flags, Fail> {{
        let mut fl = Flags::default();
        fl.kind = KINDS[kind];
        let sw = Shared::new(0x5EED);
        let sr = Shared::new(0x5EED);
        let imp_w = Imp::new(sw.clone(), WID);
        let imp_r = Imp::new(sr.clone(), WID);
        let wtok = imp_w.core.tok.id();
        let ctx_arc = Arc::new(CtxPayload(7));
        let ctx = ctx_arc.clone();
        let base = 2usize; // ctx_arc + ctx
        let cnt = Arc::new(std::sync::atomic::AtomicU64::new(0));
        let no_ctx = |_: u64, _: &Flags| -> Result<(), Fail> {{ Ok(()) }};
        let arc_live = |holders: u64, fl: &Flags| -> Result<(), Fail> {{ ctx_count_check(vc, Arc::strong_count(&ctx_arc), base + holders as usize, fl) }};
        let cnt_live = |holders: u64, fl: &Flags| -> Result<(), Fail> {{ ctx_count_check(vc, cnt.load(SeqCst) as usize, holders as usize, fl) }};
        match kind {{
{arms}
            _ => unreachable!(),
        }}
        // everything derived from the object is gone now
        ctx_count_end(vc, Arc::strong_count(&ctx_arc), base, cnt.load(SeqCst) as usize, &mut fl)?;
        Ok(fl)
    }});
    let fl = res?;
    end_of_case_checks(vc, &rep, &fl)?;
    Ok(fl)
}}
"""


def imp_struct():
    return """
pub struct Imp {
    pub core: Core,
    pub ch_ref: LeafImp,
    pub ch_mut: LeafImp,
}
impl Imp {
    pub fn new(sh: Arc<Shared>, id: u64) -> Self {
        Imp { core: Core::new(sh, id), ch_ref: LeafImp::new(id ^ 0x1111), ch_mut: LeafImp::new(id ^ 0x2222) }
    }
}
"""


def module_src(t):
    return "\n".join([HEADER, trait_def(t), imp_struct(), impl_def(t), driver_def(t), kinds_def(t)])
