"""Emit Rust source for generated traits: definition, stateful implementor, differential driver."""
import gen

HEADER = """#![allow(unused_variables, unused_mut, unused_imports, unused_parens, dead_code, clippy::all, non_snake_case, unused_unsafe, unused_assignments, unused_macros)]
use pbsupport::*;
use cglue::*;
use cglue::prelude::v1::*;
use pbsupport::verifkit::{Fail, Ctx};
use std::sync::Arc;
use std::sync::atomic::Ordering::SeqCst;
"""


def trait_def(t):
    gen.RENDER_GENERIC = True
    try:
        return _trait_def(t)
    finally:
        gen.RENDER_GENERIC = False


def _trait_def(t):
    out = ["#[cglue_trait]"]
    if t.int_result:
        out.append("#[int_result]")
    gp = "<T: pbsupport::Val + 'static>" if t.generic else ""
    out.append(f"pub trait {t.name}{gp}{t.supers} {{")
    for (name, attr, bound) in t.assocs():
        out.append(f"    {attr}")
        out.append(f"    type {name}: {bound};")
    for m in t.methods:
        if getattr(m, "doc", None):
            out.append(f"    {m.doc}")
        for a in m.attrs:
            out.append(f"    {a}")
        if m.default_body:
            out.append(f"    {m.sig()} {m.default_expr()}")
        else:
            out.append(f"    {m.sig()};")
    out.append("}")
    return "\n".join(out)


def impl_def(t, ty="Imp"):
    out = [f"impl {t.use()} for {ty} {{"]
    for (name, attr, bound) in t.assocs():
        out.append(f"    type {name} = LeafImp;")
    for m in t.methods:
        if m.default_body and not m.overridden:
            continue  # the implementor relies on the provided body
        this = {"ref": "let this = self;", "mut": "let this = self;", "own": "let mut this = self;",
                "pinref": "let this = self.get_ref();", "pinmut": "let this = self.get_mut();"}[m.recv]
        digest = " ".join(a.impl_digest() for a in m.args)
        saw = " ".join(a.impl_saw() for a in m.args)
        post = " ".join(a.impl_post() for a in m.args)
        has_post = any(isinstance(a, (gen.ACallback, gen.AIter)) for a in m.args)
        body = [f"        {this}", "        let mut hh = fnv();", f"        {digest}",
                f"        let h = this.core.enter({m.gid}, hh.get());", f"        {saw}"]
        if has_post:
            body.append("        let mut post = fnv();")
            body.append(f"        {post}")
            body.append(f"        this.core.enter_post({m.gid}, post.get());")
        else:
            body.append(f"        {post}")
        body.append(f"        {m.ret.impl_expr()}")
        out.append(f"    {m.sig(impl=True)} {{")
        out += body
        out.append("    }")
    out.append("}")
    return "\n".join(out)


def call_expr(m, obj, side):
    args = ", ".join(a.pass_(side) for a in m.args)
    if m.recv == "pinref":
        recv = f"::core::pin::Pin::new(&*{obj})"
    elif m.recv == "pinmut":
        recv = f"::core::pin::Pin::new(&mut *{obj})"
    elif m.recv == "own":
        recv = f"{obj}"
    else:
        recv = f"{obj}"
    e = f"{recv}.{m.name}({args})"
    if m.unsafe:
        e = f"unsafe {{ {e} }}"
    return e


def call_block(t, m, get_w, get_r, ind="                "):
    """Perform method m on both sides and compare. `get_w`/`get_r` are statements binding `ow`/`or_`."""
    L = [f"{ind}let mname = \"{t.name}::{m.name}\";", f"{ind}let mut g = Gen::new(seed);"]
    for a in m.args:
        L.append(ind + a.setup())
    nd = " || ".join([a.nondefault() for a in m.args if a.wrapped] + ([m.ret.nondefault()] if m.ret.wrapped else [])) or "false"
    L.append(ind + get_w)
    L.append(ind + get_r)
    inside = isinstance(m.ret, gen.RChild) and m.ret.mode != "owned"
    if inside:
        # the object's own extent: a borrowed wrapped return lives in the object's temporary storage
        L.append(f"{ind}let span_ = (&*ow as *const _ as *const u8 as usize, ::core::mem::size_of_val(&*ow));")
    L.append(f"{ind}let rw = {call_expr(m, 'ow', 'w')};")
    if inside:
        L.append(f"{ind}{{ let (ra_, rs_) = (&*rw as *const _ as *const u8 as usize, ::core::mem::size_of_val(&*rw)); if !(ra_ >= span_.0 && ra_ + rs_ <= span_.0 + span_.1) {{ return Err(Fail::new(\"C04:rettmp-outside-object\", format!(\"method {{}}: the wrapped object handed out by reference occupies bytes {{:#x}}..{{:#x}}, which is not inside the object it was borrowed from ({{:#x}}..{{:#x}}): its temporary-return slot is too small or misplaced\", mname, ra_, ra_ + rs_, span_.0, span_.0 + span_.1))); }} }}")
    L.append(f"{ind}let rr = {call_expr(m, 'or_', 'r')};")
    if m.recv == "own":
        L.append(f"{ind}fl.transfers += 1;")
    # 1. routing / state / log
    L.append(f"{ind}check_step(sw, sr, wid, mname)?;")
    # 2. addresses of reference-like arguments as seen by the wrapped implementor
    runs_impl = not (m.default_body and not m.overridden)  # otherwise the trait's provided body runs on both sides
    exp = [e for a in m.args for e in a.expect_ptrs()] if runs_impl else []
    if exp:
        L.append(f"{ind}{{ let seen = sw.take_ptrs(); let want: Vec<(usize, usize)> = vec![{', '.join(exp)}]; if seen != want {{ return Err(Fail::new(\"C02:arg-address\", format!(\"method {{}}: reference-like arguments arrived as (address,len) {{:x?}}, the caller passed {{:x?}}\", mname, seen, want))); }} }}")
    # 3. returns
    L.append(f"{ind}let nondefault = {nd};")
    L.append(ind + m.ret.compare().replace("PROBE", getattr(t, "probe", "PROBE")))
    # 4. caller-visible effects on arguments
    for a in m.args:
        if a.after() and runs_impl:
            L.append(ind + a.after())
    L.append(f"{ind}if nondefault {{ fl.wrapped_nondefault = true; }}")
    if m.ret.transfers():
        L.append(f"{ind}fl.transfers += 1;")
        if isinstance(m.ret, gen.RChild) and m.ret.mode != "owned":
            L.append(f"{ind}fl.borrowed_children += 1;")
        else:
            L.append(f"{ind}fl.ctx_derived += 1;")
    if isinstance(m.ret, (gen.RIntRes, gen.RResChild)):
        L.append(f"{ind}fl.int_result_calls += 1;")
    if m.mutating() or m.recv == "own":
        L.append(f"{ind}fl.mutated = true;")
    elif not isinstance(m.ret, gen.RUnit):
        L.append(f"{ind}if fl.mutated {{ fl.mutated_then_read = true; }}")
    return "\n".join(L)


def arm(t, m):
    """One match arm of the single-trait driver."""
    if m.recv == "own":
        gw, gr = "let ow = o.take().unwrap();", "let or_ = r.take().unwrap();"
    else:
        gw, gr = "let ow = o.as_mut().unwrap();", "let or_ = r.as_mut().unwrap();"
    return f"            {m.idx} => {{\n" + call_block(t, m, gw, gr) + "\n            }"


def both_children_block(t):
    """two children lent by different `&self` methods, alive at the same time: each must keep
    answering as its own directly borrowed counterpart (every method has its own temporary slot)"""
    ms = [m for m in t.methods if isinstance(m.ret, gen.RChild) and m.ret.mode == "ref" and m.recv == "ref" and not getattr(m, "skip", False)]
    if len(ms) < 2:
        return ""
    a, b = ms[0], ms[1]
    # prefer two wrappers of the same kind (both objects or both groups) over different leaves
    for x in ms:
        for y in ms:
            if x is not y and x.idx < y.idx and x.ret.group == y.ret.group and getattr(x.ret, "field", "") != getattr(y.ret, "field", ""):
                a, b = x, y
                break
        else:
            continue
        break

    def pair(m, salt):
        # (such methods only take by-value arguments; both sides get equal values)
        setups = " ".join(x.setup() for x in m.args)
        return f"{{ let mut g = Gen::new(0x2C41u64 ^ {salt}); {setups} ({call_expr(m, 'ow', 'w')}, {call_expr(m, 'or_', 'r')}) }}"

    L = ["    if let (Some(ow), Some(or_)) = (o.as_ref(), r.as_ref()) {",
         f"        let (aw, ar) = {pair(a, 1)};",
         f"        let (bw, br) = {pair(b, 2)};",
         "        let (pa, pb, qa, qb) = (probe_leaf_ref(aw), probe_leaf_ref(bw), probe_leaf_ref(ar), probe_leaf_ref(br));",
         f"        if pa != qa || pb != qb {{ return Err(Fail::new(\"C01:child\", format!(\"children lent by {t.name}::{a.name} and {t.name}::{b.name} and kept alive together answer {{:#x}} / {{:#x}}, the directly borrowed ones {{:#x}} / {{:#x}}\", pa, pb, qa, qb))); }}",
         f"        check_step(sw, sr, wid, \"{t.name}: two borrowed children\")?;",
         "        fl.borrowed_children += 2; fl.transfers += 2;",
         "    }"]
    return "\n".join(L)


def driver_def(t):
    bounds = "".join(f", O::{n}: {b.split(' ')[0]}" for (n, _, b) in t.assocs())
    arms = "\n".join(arm(t, m) for m in t.methods)
    both = both_children_block(t)
    return f"""
pub const NAME: &str = "{t.name}";
pub const NMETH: usize = {t.orig_n or len(t.methods)};
pub const KINDS: &[&str] = &[{', '.join('"%s"' % k for k in t.kinds())}];

fn drive<O: {t.use()} + Unpin>(o: O, r: Imp, sw: &Shared, sr: &Shared, wid: u64, ops: &[(u8, u64)], fl: &mut Flags, live: &dyn Fn(u64, &Flags) -> Result<(), Fail>) -> Result<(), Fail>
where O: Sized{bounds}
{{
    let mut o = Some(o);
    let mut r = Some(r);
    macro_rules! live_children_check {{ () => {{ live(1 + o.is_some() as u64, fl)?; }}; }}
    fl.nmeth = NMETH as u32;
    for (choice, seed) in ops.iter().copied() {{
        if o.is_none() {{ break; }}
        let seed = seed;
        let mi = (choice as usize * NMETH) >> 8;
        fl.calls += 1;
        fl.methods |= 1 << mi;
        match mi {{
{arms}
            _ => {{ {'' if t.orig_n else 'unreachable!()'} }}
        }}
        if o.is_some() {{ live(1, fl)?; }}
    }}
{both}
    Ok(())
}}
"""


def kinds_def(t, lite=False):
    """run_case: build the wrapped object of the requested container kind and drive it.
    lite: without the by-name vtable getters (a module whose full form the current tree rejects
    is retried this way, so that what its methods *do* is still checked)"""
    T = t.name
    arms = []
    getters = ", ".join(f"vt.{m.name}() as usize" for m in t.exported())
    n = len(t.exported())

    # a method marked to use integer results crosses as an integer code, whatever its spelling
    # (and carries the output slot for a success payload)
    ints = " ".join(f"int_entry_check(&vt.{m.name}(), \"{T}::{m.name}\", {'false' if getattr(m.ret, 't', None) == '()' else 'true'})?;" for m in t.exported() if getattr(m.ret, "int_result", None) is True)

    def build(expr):
        # what trait_obj! does, in two steps, with the C04 oracles in between
        vt = "" if lite else f" {{ let vt = o.get_vtbl(); vtable_words_check(vt as *const _ as *const usize, ::core::mem::size_of_val(vt), &[{getters}], \"{T}\")?; {ints} }}"
        return f"let c = {{ use cglue::from2::From2; {T}Base::from2({expr}) }}; let o = into_opaque_checked(c)?; obj_container_check(&o, \"{T}\")?;" + vt

    for i, k in enumerate(t.kinds()):
        if k == "box":
            body = f"{build('imp_w')} drive(o, imp_r, &sw, &sr, WID, ops, &mut fl, &no_ctx)?;"
        elif k == "cbox":
            body = f"{build('CBox::from(imp_w)')} drive(o, imp_r, &sw, &sr, WID, ops, &mut fl, &no_ctx)?;"
        elif k == "box_arcctx":
            body = (f"{build('(imp_w, CArc::<CtxPayload>::from(ctx.clone()))')}"
                    f" drive(o, imp_r, &sw, &sr, WID, ops, &mut fl, &arc_live)?;")
        elif k == "box_cntctx":
            body = (f"{build('(imp_w, CountCtx::new(&cnt))')}"
                    f" drive(o, imp_r, &sw, &sr, WID, ops, &mut fl, &cnt_live)?;")
        elif k == "mut":
            body = (f"let mut w = imp_w; {{ {build('&mut w')} drive(o, imp_r, &sw, &sr, WID, ops, &mut fl, &no_ctx)?; }}"
                    f" borrowed_not_dropped(wtok)?; drop(w);")
        elif k == "mut_arcctx":
            body = (f"let mut w = imp_w; {{ {build('(&mut w, CArc::<CtxPayload>::from(ctx.clone()))')} drive(o, imp_r, &sw, &sr, WID, ops, &mut fl, &arc_live)?; }}"
                    f" borrowed_not_dropped(wtok)?; drop(w);")
        elif k == "ref":
            body = (f"let w = imp_w; {{ {build('&w')} drive(o, imp_r, &sw, &sr, WID, ops, &mut fl, &no_ctx)?; }}"
                    f" borrowed_not_dropped(wtok)?; drop(w);")
        elif k == "ref_arcctx":
            body = (f"let w = imp_w; {{ {build('(&w, CArc::<CtxPayload>::from(ctx.clone()))')} drive(o, imp_r, &sw, &sr, WID, ops, &mut fl, &arc_live)?; }}"
                    f" borrowed_not_dropped(wtok)?; drop(w);")
        elif k == "arcsome":
            body = f"{build('CArcSome::from(imp_w)')} drive(o, imp_r, &sw, &sr, WID, ops, &mut fl, &no_ctx)?;"
        else:
            raise ValueError(k)
        arms.append(f"        {i} => {{ {body} }}")
    arms = "\n".join(arms)
    return f"""
const WID: u64 = 0x77;

pub fn run_case(vc: &Ctx, kind: u8, ops: &[(u8, u64)]) -> Result<Flags, Fail> {{
    let mut fl = Flags::default();
    let kind = kind as usize % KINDS.len();
    fl.kind = KINDS[kind];
    let (res, rep) = pbsupport::verifkit::tracked_confirmed(|| -> Result<Flags, Fail> {{
        let mut fl = Flags::default();
        fl.kind = KINDS[kind];
        let sw = Shared::new(0x5EED);
        let sr = Shared::new(0x5EED);
        let imp_w = Imp::new(sw.clone(), WID);
        let imp_r = Imp::new(sr.clone(), WID);
        let wtok = imp_w.core.tok.id();
        let ctx_arc = Arc::new(CtxPayload(7));
        let ctx = ctx_arc.clone();
        let base = 2usize; // ctx_arc + ctx
        let cnt = Arc::new(std::sync::atomic::AtomicU64::new(0));
        let no_ctx = |_: u64, _: &Flags| -> Result<(), Fail> {{ Ok(()) }};
        let arc_live = |holders: u64, fl: &Flags| -> Result<(), Fail> {{ ctx_count_check(vc, Arc::strong_count(&ctx_arc), base + holders as usize, fl) }};
        let cnt_live = |holders: u64, fl: &Flags| -> Result<(), Fail> {{ ctx_count_check(vc, cnt.load(SeqCst) as usize, holders as usize, fl) }};
        match kind {{
{arms}
            _ => {{ {'' if t.orig_n else 'unreachable!()'} }}
        }}
        // everything derived from the object is gone now
        ctx_count_end(vc, Arc::strong_count(&ctx_arc), base, cnt.load(SeqCst) as usize, &mut fl)?;
        Ok(fl)
    }});
    let fl = res?;
    end_of_case_checks(vc, &rep, &fl)?;
    Ok(fl)
}}
"""


def imp_struct():
    return """
pub struct Imp {
    pub core: Core,
    pub ch_ref: LeafImp,
    pub ch_ref2: LeafImp,
    pub ch_mut: LeafImp,
}
impl Imp {
    pub fn new(sh: Arc<Shared>, id: u64) -> Self {
        Imp { core: Core::new(sh, id), ch_ref: LeafImp::new(id ^ 0x1111), ch_ref2: LeafImp::new(id ^ 0x3333), ch_mut: LeafImp::new(id ^ 0x2222) }
    }
}
"""


def module_src(t, lite=False):
    return "\n".join([HEADER, trait_def(t), imp_struct(), impl_def(t), driver_def(t), kinds_def(t, lite)])


# ---------------------------------------------------------------------------------------------
# groups

class Group:
    def __init__(self, name, members, n_mand, enabled, aliases=None):
        """members: list of (module name, Trait); first n_mand are mandatory; enabled: bitmask over optional;
        aliases: {optional index: alias} (`Trait = Alias` in the group definition)"""
        self.name, self.members, self.n_mand, self.enabled = name, members, n_mand, enabled
        self.aliases = aliases or {}

    def visible(self, oi):
        """the name by which optional trait oi is known in the group"""
        return self.aliases.get(oi) or self.opt()[oi][1].name

    def mand(self):
        return self.members[:self.n_mand]

    def opt(self):
        return self.members[self.n_mand:]

    def kinds(self):
        ts = [t for (_, t) in self.members]
        k = ["box", "box_arcctx"]
        if not any(t.has_own() for t in ts):
            k += ["mut"]
            if not any(t.has_mut() for t in ts):
                k += ["ref"]
        return k

    def describe(self):
        return {"group": self.name, "mandatory": [t.name for (_, t) in self.mand()],
                "optional": [(t.name + (" = " + self.aliases[i] if i in self.aliases else "")) for i, (_, t) in enumerate(self.opt())],
                "enabled": [self.visible(i) for i in range(len(self.opt())) if self.enabled >> i & 1], "containers": self.kinds()}


def group_src(g, lite=False):
    """lite: only single-trait requests (such a module still compiles on trees where the
    naming of multi-trait conversion functions is disturbed, and still checks the layout)"""
    T = g.name
    mods = sorted(set(m for (m, _) in g.members))
    uses = "".join(f"use super::{m}::*;\n" for m in mods)
    mand_names = [t.name for (_, t) in g.mand()]
    opt_names = [g.visible(i) for i in range(len(g.opt()))]   # visible (alias) names
    opt_decl = [(t.use() + (f" = {g.aliases[i]}" if i in g.aliases else "")) for i, (_, t) in enumerate(g.opt())]
    mand_uses = [t.use() for (_, t) in g.mand()]
    mand_txt = "{}" if not mand_names else (mand_uses[0] if len(mand_names) == 1 else "{ " + ", ".join(mand_uses) + " }")
    decl = f"cglue_trait_group!({T}, {mand_txt}, {{ {', '.join(opt_decl)} }});"
    en = [n for i, n in enumerate(opt_decl) if g.enabled >> i & 1]
    impls = "\n".join(impl_def(t, "GImp") for (_, t) in g.members)
    impl_group = f"cglue_impl_group!(GImp, {T}, {{ {', '.join(en)} }});"
    nopt = len(opt_names)

    # ---- actions -------------------------------------------------------------------------------
    actions = []  # (description, code)
    sorted_mand = sorted(mand_names)
    sorted_opt = sorted(opt_names)

    def subset_names(mask):
        return [n for i, n in enumerate(opt_names) if mask >> i & 1]

    def ok(mask):
        return mask & g.enabled == mask

    def final_pos(mask):
        """word positions (in the base group) of the optional vtables a final form keeps, in the
        order it must keep them: by visible name"""
        return "[" + ", ".join(str(len(mand_names) + sorted_opt.index(n)) for n in sorted(subset_names(mask))) + "]"

    ind = "                "
    for ti, (_, t) in enumerate(g.members):
        is_mand = ti < g.n_mand
        oi = ti - g.n_mand
        for m in t.methods:
            gr_own, gr_ref = "let or_ = r.take().unwrap();", "let or_ = r.as_mut().unwrap();"
            # direct on the group (mandatory traits only)
            if is_mand:
                if m.recv == "own":
                    code = call_block(t, m, "let ow = g_.take().unwrap();", gr_own, ind)
                else:
                    code = call_block(t, m, "let ow = g_.as_mut().unwrap();", gr_ref, ind)
                actions.append((f"direct {t.name}::{m.name}", code))
            # through casts: minimal subset, plus the full enabled set as a superset
            masks = []
            if not is_mand:
                masks.append(1 << oi)
                if g.enabled | (1 << oi) != (1 << oi) and not lite:
                    masks.append(g.enabled | (1 << oi))
            elif nopt:
                if lite:
                    low = g.enabled & -g.enabled if g.enabled else 1
                    masks.append(low)
                else:
                    masks.append(g.enabled if g.enabled else 1)
            for mask in masks:
                names = " + ".join(subset_names(mask))
                if not names:
                    continue
                good = ok(mask)
                refuse = f"return Err(Fail::new(\"C08:refused\", format!(\"{{}} for traits {names} refused although all of them are enabled\", \"{{PATH}}\")));"
                accept = f"return Err(Fail::new(\"C08:accepted\", format!(\"{{}} for traits {names} succeeded although not all of them are enabled\", \"{{PATH}}\")));"
                if not good:
                    # negative cells: the request must be refused and leave the group usable
                    actions.append((f"as_ref refused {names}", f"{ind}if as_ref!(g_.as_ref().unwrap() impl {names}).is_some() {{ {accept.replace('{PATH}', 'as_ref')} }} fl.casts += 1;"))
                    actions.append((f"cast refused {names}", f"{ind}if cast!(g_.take().unwrap() impl {names}).is_some() {{ {accept.replace('{PATH}', 'cast')} }} fl.casts += 1; r.take();"))
                    continue
                if m.recv in ("ref", "pinref"):
                    code = (f"{ind}let ow_ = match as_ref!(g_.as_ref().unwrap() impl {names}) {{ Some(x) => x, None => {{ {refuse.replace('{PATH}', 'as_ref')} }} }}; fl.casts += 1;\n"
                            + call_block(t, m, "let ow = ow_;", gr_ref, ind).replace("::core::pin::Pin::new(&*ow)", "::core::pin::Pin::new(ow)"))
                    actions.append((f"as_ref({names}) {t.name}::{m.name}", code))
                if m.recv in ("ref", "pinref", "mut", "pinmut"):
                    code = (f"{ind}let ow = match as_mut!(g_.as_mut().unwrap() impl {names}) {{ Some(x) => x, None => {{ {refuse.replace('{PATH}', 'as_mut')} }} }}; fl.casts += 1;\n"
                            + call_block(t, m, "", gr_ref, ind))
                    actions.append((f"as_mut({names}) {t.name}::{m.name}", code))
                    code = (f"{ind}let mut c_ = match cast!(g_.take().unwrap() impl {names}) {{ Some(x) => x, None => {{ {refuse.replace('{PATH}', 'cast')} }} }}; fl.casts += 1; holders_extra = 1;\n"
                            f"{ind}{{\n" + call_block(t, m, "let ow = &mut c_;", gr_ref, ind + "    ") + f"\n{ind}}}\n{ind}holders_extra = 0; g_ = Some({'c_.upcast()' if len(actions) % 2 == 0 else 'c_.into()'});")
                    actions.append((f"cast({names})+upcast {t.name}::{m.name}", code))
                # final form (terminal)
                if m.recv == "own":
                    code = (f"{ind}let before_ = raw_words(g_.as_ref().unwrap(), {len(mand_names) + len(opt_names)});\n"
                            f"{ind}let f_ = match into!(g_.take().unwrap() impl {names}) {{ Some(x) => x, None => {{ {refuse.replace('{PATH}', 'into')} }} }}; fl.casts += 1;\n"
                            f"{ind}final_words_check(&before_, &raw_words(&f_, {len(mand_names)} + {len(subset_names(mask))}), {len(mand_names)}, &{final_pos(mask)}, \"{T}\", \"{names}\")?;\n"
                            + call_block(t, m, "let ow = f_;", gr_own, ind))
                    actions.append((f"into({names}) {t.name}::{m.name}", code))
                    code = (f"{ind}let c_ = match cast!(g_.take().unwrap() impl {names}) {{ Some(x) => x, None => {{ {refuse.replace('{PATH}', 'cast')} }} }}; fl.casts += 1;\n"
                            + call_block(t, m, "let ow = c_;", gr_own, ind))
                    actions.append((f"cast({names}) {t.name}::{m.name}", code))
                else:
                    code = (f"{ind}let before_ = raw_words(g_.as_ref().unwrap(), {len(mand_names) + len(opt_names)});\n"
                            f"{ind}let mut f_ = match into!(g_.take().unwrap() impl {names}) {{ Some(x) => x, None => {{ {refuse.replace('{PATH}', 'into')} }} }}; fl.casts += 1; holders_extra = 1;\n"
                            f"{ind}final_words_check(&before_, &raw_words(&f_, {len(mand_names)} + {len(subset_names(mask))}), {len(mand_names)}, &{final_pos(mask)}, \"{T}\", \"{names}\")?;\n"
                            f"{ind}{{\n" + call_block(t, m, "let ow = &mut f_;", gr_ref, ind + "    ") + f"\n{ind}}}\n{ind}holders_extra = 0; drop(f_); r.take();")
                    actions.append((f"into({names}) {t.name}::{m.name}", code))
    arms = "\n".join(f"            {i} => {{ // {d}\n{c}\n            }}" for i, (d, c) in enumerate(actions))
    descs = ", ".join('"%s"' % d.replace('"', "'") for (d, _) in actions)

    # ---- layout words of the group object (C04) -----------------------------------------------
    m_, k_ = len(mand_names), len(opt_names)
    lay = ["    let mut opt_ptrs: Vec<(usize, usize, &str)> = Vec::new();"]
    for i, (_, t) in enumerate(g.opt()):
        vis = g.visible(i)
        pos = m_ + sorted_opt.index(vis)
        if g.enabled >> i & 1:
            # the cast form is a concrete type that exposes its vtable references; cast and come back
            lay.append(f"    {{ let before = raw_words(g_.as_ref().unwrap(), {m_ + k_}); let c = match cast!(g_.take().unwrap() impl {vis}) {{ Some(c) => c, None => return Err(Fail::new(\"C08:refused\", \"cast to the enabled trait {vis} refused\".to_string())) }}; opt_ptrs.push(({pos}, vt_ptr::<{t.vtbl()}, _>(&c), \"{vis}\")); same_words(&before, &raw_words(&c, {m_ + k_}), \"{T}\", \"cast to {vis}\")?; g_ = Some(c.upcast()); same_words(&before, &raw_words(g_.as_ref().unwrap(), {m_ + k_}), \"{T}\", \"cast to {vis} and back\")?; }}")
    lay.append("    let g = g_.as_ref().unwrap();")
    lay.append(f"    let gbase = g as *const _ as usize; let words = unsafe {{ ::core::slice::from_raw_parts(gbase as *const usize, {m_ + k_}) }};")
    for (_, t) in g.mand():
        pos = sorted_mand.index(t.name)
        lay.append(f"    {{ let p = vt_ptr::<{t.vtbl()}, _>(g); if words[{pos}] != p {{ return Err(Fail::new(\"C04:group-order\", format!(\"group {T}: the vtable pointer of mandatory trait {t.name} is not at word {pos} (mandatory vtables in name order first); it is at word {{:?}}\", words.iter().position(|w| *w == p)))); }} }}")
    lay.append(f"    for (pos, p, tn) in opt_ptrs.iter() {{ if words[*pos] != *p {{ return Err(Fail::new(\"C04:group-order\", format!(\"group {T}: the vtable pointer of optional trait {{}} is not at word {{}} (optional vtables in name order after the mandatory ones); it is at word {{:?}}\", tn, pos, words.iter().position(|w| w == p)))); }} }}")
    for i, (_, t) in enumerate(g.opt()):
        pos = m_ + sorted_opt.index(g.visible(i))
        if not (g.enabled >> i & 1):
            lay.append(f"    if words[{pos}] != 0 {{ return Err(Fail::new(\"C04:group-null\", format!(\"group {T}: the slot of the optional trait {g.visible(i)}, which the implementor does not enable, is not null (word {pos})\"))); }}")
    lay.append(f"    group_container_check(gbase, ::core::mem::size_of_val(g), {m_ + k_}, g.ccont_ref() as *const _ as usize, ::core::mem::size_of_val(g.ccont_ref()), {{ let (o, c) = g.ccont_ref().cobj_base_ref(); (o as *const _ as usize, c as *const _ as usize) }}, inst_size, \"{T}\")?;")
    lay.append("    verifkit::alloc::exempt(|| drop(opt_ptrs));")
    layout = "\n".join(lay)

    kinds = g.kinds()
    karms = []
    for i, k in enumerate(kinds):
        def build(expr):
            return f"let c = {{ use cglue::from2::From2; {T}::from2({expr}) }}; let o = into_opaque_checked(c)?;"
        if k == "box":
            karms.append(f"            {i} => {{ {build('imp_w')} run_kind!(o, 16usize, no_ctx); }}")
        elif k == "box_arcctx":
            karms.append(f"            {i} => {{ {build('(imp_w, CArc::<CtxPayload>::from(ctx.clone()))')} run_kind!(o, 16usize, arc_live); }}")
        elif k == "mut":
            karms.append(f"            {i} => {{ let mut w = imp_w; {{ {build('&mut w')} run_kind!(o, 8usize, no_ctx); }} borrowed_not_dropped(wtok)?; drop(w); }}")
        elif k == "ref":
            karms.append(f"            {i} => {{ let w = imp_w; {{ {build('&w')} run_kind!(o, 8usize, no_ctx); }} borrowed_not_dropped(wtok)?; drop(w); }}")
    karms = "\n".join(karms)
    return f"""{HEADER}
{uses}
use cglue::trait_group::{{GetContainer, CGlueObjBase}};

{decl}

pub struct GImp {{
    pub core: Core,
    pub ch_ref: LeafImp,
    pub ch_ref2: LeafImp,
    pub ch_mut: LeafImp,
}}
impl GImp {{
    pub fn new(sh: Arc<Shared>, id: u64) -> Self {{
        GImp {{ core: Core::new(sh, id), ch_ref: LeafImp::new(id ^ 0x1111), ch_ref2: LeafImp::new(id ^ 0x3333), ch_mut: LeafImp::new(id ^ 0x2222) }}
    }}
}}

{impls}

{impl_group}

pub const NAME: &str = "{T}";
pub const NMETH: usize = {len(actions)};
pub const KINDS: &[&str] = &[{', '.join('"%s"' % k for k in kinds)}];
pub const ACTIONS: &[&str] = &[{descs}];
const WID: u64 = 0x99;

pub fn run_case(vc: &Ctx, kind: u8, ops: &[(u8, u64)]) -> Result<Flags, Fail> {{
    let kind = kind as usize % KINDS.len();
    let (res, rep) = pbsupport::verifkit::tracked_confirmed(|| -> Result<Flags, Fail> {{
        let mut fl = Flags::default();
        fl.kind = KINDS[kind];
        fl.nmeth = NMETH as u32;
        let sw_ = Shared::new(0x5EED);
        let sr_ = Shared::new(0x5EED);
        let (sw, sr): (&Shared, &Shared) = (&sw_, &sr_);
        let wid = WID;
        let imp_w = GImp::new(sw_.clone(), WID);
        let imp_r = GImp::new(sr_.clone(), WID);
        let wtok = imp_w.core.tok.id();
        let ctx_arc = Arc::new(CtxPayload(7));
        let ctx = ctx_arc.clone();
        let base = 2usize;
        let cnt = Arc::new(std::sync::atomic::AtomicU64::new(0));
        let no_ctx = |_: u64, _: &Flags| -> Result<(), Fail> {{ Ok(()) }};
        let arc_live = |holders: u64, fl: &Flags| -> Result<(), Fail> {{ ctx_count_check(vc, Arc::strong_count(&ctx_arc), base + holders as usize, fl) }};
        macro_rules! run_kind {{ ($o:expr, $inst_size:expr, $live:ident) => {{{{
            let live = &$live;
            let mut g_ = Some($o);
            let mut r = Some(imp_r);
            {{
                let inst_size: usize = $inst_size;
{layout}
            }}
            // an object obtained by cast/into is a context holder while the group itself is moved out
            let mut holders_extra: u64 = 0;
            macro_rules! live_children_check {{ () => {{ live(1 + g_.is_some() as u64 + holders_extra, &fl)?; }}; }}
            for (choice, seed) in ops.iter().copied() {{
                if g_.is_none() || r.is_none() {{ break; }}
                let ai = (choice as usize * NMETH) >> 8;
                fl.calls += 1;
                fl.methods |= 1 << (ai % 64);
                match ai {{
{arms}
                    _ => unreachable!(),
                }}
                if g_.is_some() {{ live(1, &fl)?; }}
            }}
            drop(g_);
        }}}} }}
        match kind {{
{karms}
            _ => unreachable!(),
        }}
        ctx_count_end(vc, Arc::strong_count(&ctx_arc), base, cnt.load(SeqCst) as usize, &mut fl)?;
        Ok(fl)
    }});
    let fl = res?;
    end_of_case_checks(vc, &rep, &fl)?;
    Ok(fl)
}}
"""
