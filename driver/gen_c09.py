"""C09: finite matrix (opaque-conversion rule x payload markers x marker), evaluated by a generated crate."""
import os
from common import ROOT, REPO, WORK
from batch import write_if_changed

CARGO = """[package]
name = "c09markers"
version = "0.1.0"
edition = "2021"

[dependencies]
cglue = {{ path = "{repo}/cglue" }}
pbsupport = {{ path = "{root}/harness/pbsupport" }}
serde = {{ version = "1", features = ["derive"] }}
serde_json = "1"

[workspace]

[profile.dev]
opt-level = 0
debug = 0
incremental = false
"""

# payloads: (name, type, is_send, is_sync)
PAYLOADS = [
    ("send_sync", "PSS", True, True),
    ("send_nosync", "PSn", True, False),
    ("nosend_sync", "PnS", False, True),
    ("nosend_nosync", "Pnn", False, False),
]

HEADER = """#![allow(unused, non_camel_case_types, clippy::all)]
use pbsupport::*;
pub use cglue::*;
use cglue::prelude::v1::*;
use cglue::trait_group::{c_void, CGlueObjContainer, CGlueTraitObj, NoContext, Opaquable};
use cglue::forward::Fwd;
use std::marker::PhantomData;
use pbsupport::verifkit::{Args, Ctx, Fail, Info, CaseResult};

// payloads with every combination of the auto markers
pub struct PSS(u64);
pub struct PSn(std::cell::Cell<u64>);
pub struct PnS(u64, PhantomData<*const ()>);
unsafe impl Sync for PnS {}
pub struct Pnn(std::rc::Rc<u64>);

// a trait (only `&self`, so that every container kind is admissible) and a group over it
#[cglue_trait]
pub trait Dm { fn dm(&self) -> u64; }
#[cglue_trait]
pub trait Dx { fn dx(&self) -> u64; }
cglue_trait_group!(Dg, Dm, { Dx });
// a trait that lends a wrapped object from `&self`: its objects carry real temporary storage
// (a Cell), so they are never Sync, whatever the handle
#[cglue_trait]
pub trait Dr {
    #[wrap_with_obj_ref(Dm)]
    type Sub: Dm + 'static;
    fn dr_sub(&self) -> &Self::Sub;
}
cglue_trait_group!(Dh, Dr, { Dx });
macro_rules! imp { ($t:ty) => { impl Dm for $t { fn dm(&self) -> u64 { 1 } } impl Dx for $t { fn dx(&self) -> u64 { 2 } } cglue_impl_group!($t, Dg, { Dx }); }; }
imp!(PSS); imp!(PSn); imp!(PnS); imp!(Pnn);

// "does X implement the marker" on concrete types: an inherent associated const shadows the
// blanket trait const exactly when the bound holds
pub struct W<T: ?Sized>(PhantomData<T>);
pub trait No { const SEND: bool = false; const SYNC: bool = false; const OPAQ: bool = false; fn target() -> Option<&'static str> { None } }
impl<T: ?Sized> No for W<T> {}
pub struct WS<T: ?Sized>(PhantomData<T>);
pub trait NoS { const SEND: bool = false; }
impl<T: ?Sized> NoS for WS<T> {}
impl<T: ?Sized + Send> WS<T> { pub const SEND: bool = true; }
pub struct WY<T: ?Sized>(PhantomData<T>);
pub trait NoY { const SYNC: bool = false; }
impl<T: ?Sized> NoY for WY<T> {}
impl<T: ?Sized + Sync> WY<T> { pub const SYNC: bool = true; }
pub struct WO<T>(PhantomData<T>);
pub trait NoO { const OPAQ: bool = false; fn target() -> Option<&'static str> { None } }
impl<T> NoO for WO<T> {}
impl<T: Opaquable> WO<T> { pub const OPAQ: bool = true; pub fn target() -> Option<&'static str> { Some(std::any::type_name::<T::OpaqueTarget>()) } }

#[derive(serde::Serialize, serde::Deserialize, Debug, Clone)]
pub struct Cell { pub rule: String, pub handle: String, pub payload: String, pub marker: String }

pub struct Row { rule: &'static str, handle: &'static str, payload: &'static str, opaq: bool, src_send: bool, src_sync: bool, tgt_send: bool, tgt_sync: bool, target_actual: Option<&'static str>, target_stated: &'static str }

/// a C-compatible wrapper type against the std handle it is built from (no conversion involved)
macro_rules! wrow {
    ($rule:expr, $handle:expr, $payload:expr, $std:ty, $wrapper:ty) => {
        Row { rule: $rule, handle: $handle, payload: $payload,
              opaq: false, src_send: <WS<$std>>::SEND, src_sync: <WY<$std>>::SYNC,
              tgt_send: <WS<$wrapper>>::SEND, tgt_sync: <WY<$wrapper>>::SYNC,
              target_actual: None, target_stated: std::any::type_name::<$wrapper>() }
    };
}

macro_rules! row {
    ($rule:expr, $handle:expr, $payload:expr, $hty:ty, $src:ty, $tgt:ty) => {
        // the markers of the *instance handle* the value was built from are what counts
        Row { rule: $rule, handle: $handle, payload: $payload,
              opaq: <WO<$src>>::OPAQ, src_send: <WS<$hty>>::SEND, src_sync: <WY<$hty>>::SYNC,
              tgt_send: <WS<$tgt>>::SEND, tgt_sync: <WY<$tgt>>::SYNC,
              target_actual: <WO<$src>>::target(), target_stated: std::any::type_name::<$tgt>() }
    };
}
"""

MAIN = """
fn main() {
    let args = Args::parse();
    let ctx = Ctx::new(args);
    let rows = rows();
    let replay: Option<Cell> = ctx.replay_for("cells");
    for r in &rows {
        for (marker, src, tgt) in [("Send", r.src_send, r.tgt_send), ("Sync", r.src_sync, r.tgt_sync)] {
            let cell = Cell { rule: r.rule.to_string(), handle: r.handle.to_string(), payload: r.payload.to_string(), marker: marker.to_string() };
            if let Some(rc) = &replay { if !(rc.rule == cell.rule && rc.payload == cell.payload && rc.marker == cell.marker) { continue; } }
            else if ctx.is_replay() { continue; }
            ctx.eval_nofreeze("cells", &cell, |_| {
                if r.rule.starts_with("wrapper:") {
                    // a wrapper built from a std handle must not be more thread-safe than that handle
                    if tgt && !src {
                        let key = format!("C09:{}:{}", r.handle, marker);
                        if !ctx.known(&key) {
                            return Err(Fail::new(key, format!("{} over a payload that is {}: the std handle it is built from is not {marker}, but {} is", r.rule, r.payload, r.target_stated)));
                        }
                    }
                }
                if r.opaq {
                    // the stated target type must be what the conversion really produces
                    if r.target_actual != Some(r.target_stated) {
                        return Err(Fail::new("harness", format!("harness model out of date: {} converts to {:?}, the matrix states {}", r.rule, r.target_actual, r.target_stated)));
                    }
                    if tgt && !src {
                        // objects with temporary storage are not Sync on any handle: a Sync cell
                        // failing there is not the handle's known weakness
                        let key = if r.rule.contains("rettmp") && marker == "Sync" { format!("C09:{}:{}:rettmp", r.handle, marker) } else { format!("C09:{}:{}", r.handle, marker) };
                        if !ctx.known(&key) {
                            return Err(Fail::new(key, format!("rule {} with a payload that is {}: the handle is not {marker} but its opaque form {} is", r.rule, r.payload, r.target_stated)));
                        }
                    }
                }
                // non-trivial cells: the payload (hence possibly the handle) lacks the marker
                let lacks = r.payload.contains(if marker == "Send" { "nosend" } else { "nosync" });
                Ok(Info::new(lacks).class(format!("rule:{}", r.rule)).class_if(r.opaq, "convertible").class_if(!r.opaq && !r.rule.starts_with("wrapper:"), "conversion-rejected-by-bounds").class_if(r.rule.starts_with("wrapper:"), "wrapper-vs-std-handle").class_if(r.opaq && !src && !tgt, "marker-correctly-absent"))
            });
        }
    }
    let code = ctx.finish("every opaque-conversion rule (shared/mutable reference, CBox, CSliceBox, CArc, CArcSome, Fwd over each, PhantomData, CGlueObjContainer, generated single-trait object, generated group, its cast (With) variants, the same for a trait with real temporary-return storage) x instance handle kind x context (none / CArc) x payload in {Send,!Send}x{Sync,!Sync} x marker in {Send,Sync}: booleans `X: Marker` are computed on concrete types with the inherent-const-shadows-trait-const trick; oracle: convertible and marker(opaque form) implies marker(handle). Plus the smart pointers themselves (CBox, CSliceBox, CArc, CArcSome, CVec, and Fwd over &T / &mut T / Box / Rc / Arc) against the std handle each is built from (Box, Box<[T]>, Option<Arc>, Arc, Vec, the forwarded handle itself): marker(smart pointer) implies marker(std handle). Non-trivial = the payload lacks the marker", &["the opaque target type of each rule is stated in the matrix and compared with type_name of the real associated type"], true);
    std::process::exit(code);
}
"""


def make():
    d = os.path.join(WORK, "c09")
    os.makedirs(os.path.join(d, "src"), exist_ok=True)
    write_if_changed(os.path.join(d, "Cargo.toml"), CARGO.format(repo=REPO, root=ROOT))
    lock = os.path.join(d, "Cargo.lock")
    if not os.path.exists(lock):
        open(lock, "w").write(open(os.path.join(ROOT, "harness", "Cargo.lock")).read())
    rows = []
    for (pn, P, _, _) in PAYLOADS:
        handles = [
            ("ref", f"&'static {P}", "&'static c_void"),
            ("mut", f"&'static mut {P}", "&'static mut c_void"),
            ("cbox", f"CBox<'static, {P}>", "CBox<'static, c_void>"),
            ("cslicebox", f"CSliceBox<'static, {P}>", "CSliceBox<'static, c_void>"),
            ("carc", f"CArc<{P}>", "CArc<c_void>"),
            ("carcsome", f"CArcSome<{P}>", "CArcSome<c_void>"),
        ]
        for (h, src, tgt) in handles:
            hty = src
            rows.append((f"{h}", h, pn, hty, src, tgt))
            rows.append((f"Fwd<{h}>", h, pn, hty, f"Fwd<{src}>", f"Fwd<{tgt}>"))
            if h in ("cslicebox", "carc"):
                continue  # not an instance handle of objects (does not Deref to the payload)
            for (cn, ctx) in (("noctx", "NoContext"), ("arcctx", "CArc<c_void>")):
                rows.append((f"container<{h},{cn}>", h, pn, hty, f"CGlueObjContainer<{src}, {ctx}, DmRetTmp<{ctx}>>", f"CGlueObjContainer<{tgt}, {ctx}, DmRetTmp<{ctx}>>"))
                rows.append((f"object<{h},{cn}>", h, pn, hty, f"DmBase<'static, {src}, {ctx}>", f"DmBase<'static, {tgt}, {ctx}>"))
                rows.append((f"group<{h},{cn}>", h, pn, hty, f"Dg<'static, {src}, {ctx}>", f"Dg<'static, {tgt}, {ctx}>"))
                rows.append((f"group-container<{h},{cn}>", h, pn, hty, f"DgContainer<{src}, {ctx}>", f"DgContainer<{tgt}, {ctx}>"))
                rows.append((f"object-rettmp<{h},{cn}>", h, pn, hty, f"DrBase<'static, {src}, {ctx}>", f"DrBase<'static, {tgt}, {ctx}>"))
                rows.append((f"group-rettmp<{h},{cn}>", h, pn, hty, f"Dh<'static, {src}, {ctx}>", f"Dh<'static, {tgt}, {ctx}>"))
    # the PhantomData rule: a marker-only handle converts only through what it is a marker of
    for (pn, P, _, _) in PAYLOADS:
        rows.append(("phantom", "phantom", pn, f"PhantomData<{P}>", f"PhantomData<{P}>", "PhantomData<c_void>"))
        rows.append(("Fwd<phantom>", "phantom", pn, f"PhantomData<{P}>", f"Fwd<PhantomData<{P}>>", "Fwd<PhantomData<c_void>>"))
    wrows = []
    for (pn, P, _, _) in PAYLOADS:
        for (name, std, wr) in [
            ("w-cbox", f"Box<{P}>", f"CBox<'static, {P}>"),
            ("w-cslicebox", f"Box<[{P}]>", f"CSliceBox<'static, {P}>"),
            ("w-carc", f"Option<std::sync::Arc<{P}>>", f"CArc<{P}>"),
            ("w-carcsome", f"std::sync::Arc<{P}>", f"CArcSome<{P}>"),
            # the owning vector: a payload may contain one, and it passes the CBox gate on the
            # strength of the vector's own markers
            ("w-cvec", f"Vec<{P}>", f"cglue::vec::CVec<{P}>"),
            ("w-fwd-ref", f"&'static {P}", f"Fwd<&'static {P}>"),
            ("w-fwd-mut", f"&'static mut {P}", f"Fwd<&'static mut {P}>"),
            ("w-fwd-box", f"Box<{P}>", f"Fwd<Box<{P}>>"),
            ("w-fwd-rc", f"std::rc::Rc<{P}>", f"Fwd<std::rc::Rc<{P}>>"),
            ("w-fwd-arc", f"std::sync::Arc<{P}>", f"Fwd<std::sync::Arc<{P}>>"),
        ]:
            wrows.append((f"wrapper:{name[2:]}", name, pn, std, wr))
    body = [HEADER, "fn rows() -> Vec<Row> {", "    vec!["]
    for (rule, h, pn, hty, src, tgt) in rows:
        body.append(f"        row!(\"{rule}\", \"{h}\", \"{pn}\", {hty}, {src}, {tgt}),")
    for (rule, h, pn, std, wr) in wrows:
        body.append(f"        wrow!(\"{rule}\", \"{h}\", \"{pn}\", {std}, {wr}),")
    body.append("    ]")
    body.append("}")
    body.append(MAIN)
    write_if_changed(os.path.join(d, "src", "main.rs"), "\n".join(body))
    return d
