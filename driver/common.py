"""Shared plumbing of the check driver: building, running, findings protocol, evidence."""
import os, sys, json, subprocess, hashlib, time, shutil

ROOT = os.path.dirname(os.path.dirname(os.path.abspath(__file__)))
HARNESS = os.path.join(ROOT, "harness")
TARGET = os.path.join(ROOT, "target")
WORK = os.path.join(ROOT, "work")
REPO = os.environ.get("VERIF_REPO", "/repo")
NCPU = os.cpu_count() or 4

ENV = dict(os.environ)
ENV.update({"CARGO_NET_OFFLINE": "true", "CARGO_TERM_COLOR": "never", "RUST_BACKTRACE": "0"})


class Infra(Exception):
    """Something outside the property went wrong (build of the harness itself, time-out, tool missing)."""


def load_known(prop):
    p = os.path.join(ROOT, "known_findings.json")
    if not os.path.exists(p):
        return {"known": {}, "fixed": {}}
    data = json.load(open(p))
    out = {"known": {}, "fixed": {}}
    for e in data.get("findings", []):
        if e["property"] != prop:
            continue
        out["known" if e["status"] == "known" else "fixed"][e["key"]] = e
    return out


def sh(cmd, cwd=None, timeout=None, env=None, check=False, capture=True):
    try:
        r = subprocess.run(cmd, cwd=cwd, timeout=timeout, env=env or ENV,
                           stdout=subprocess.PIPE if capture else None,
                           stderr=subprocess.STDOUT if capture else None, text=True)
    except subprocess.TimeoutExpired:
        raise Infra(f"time-out after {timeout}s: {' '.join(cmd)[:200]}")
    if check and r.returncode != 0:
        raise Infra(f"command failed ({r.returncode}): {' '.join(cmd)[:200]}\n{(r.stdout or '')[-3000:]}")
    return r


def cargo_build(package, release=False, features=None, cwd=HARNESS, extra=None, timeout=1800, target_dir=None, toolchain=None, env=None):
    cmd = ["cargo"]
    if toolchain:
        cmd.append("+" + toolchain)
    cmd += ["build", "-p", package, "--offline"]
    if release:
        cmd.append("--release")
    if features:
        cmd += ["--features", ",".join(features)]
    if target_dir:
        cmd += ["--target-dir", target_dir]
    if extra:
        cmd += extra
    r = sh(cmd, cwd=cwd, timeout=timeout, env=env)
    if r.returncode != 0:
        return False, r.stdout
    return True, r.stdout


def bin_path(name, release=False, target_dir=TARGET):
    return os.path.join(target_dir, "release" if release else "debug", name)


class Run:
    def __init__(self, prop, tier, seed, replay, known):
        self.prop, self.tier, self.seed, self.replay, self.known = prop, tier, seed, replay, known
        self.results = []       # result dicts of sub-runs
        self.extra_cov = {}     # extra coverage keys
        self.assumptions = []
        self.level = "exploration"
        self.inconclusive = []

    # -- running Rust harness binaries that follow the verifkit result protocol ---------------
    def run_harness(self, binary, args=None, timeout=3600, env=None, label=None):
        os.makedirs(WORK, exist_ok=True)
        out = os.path.join(WORK, f"result-{self.prop}-{label or os.path.basename(binary)}-{os.getpid()}.json")
        if os.path.exists(out):
            os.remove(out)
        cmd = [binary, self.prop, "--tier", self.tier, "--seed", str(self.seed), "--out", out]
        keys = sorted(self.known["known"].keys())
        if keys:
            cmd += ["--known", ",".join(keys)]
        if self.replay:
            cmd += ["--replay", os.path.abspath(self.replay)]
        if args:
            cmd += args
        e = dict(ENV)
        if env:
            e.update(env)
        r = sh(cmd, timeout=timeout, env=e)
        if not os.path.exists(out):
            raise Infra(f"{os.path.basename(binary)} produced no result (exit {r.returncode}):\n{(r.stdout or '')[-3000:]}")
        res = json.load(open(out))
        os.remove(out)
        res["_label"] = label or os.path.basename(binary)
        self.results.append(res)
        return res

    def add_result(self, res):
        self.results.append(res)

    # -- the end: findings protocol + evidence ----------------------------------------------
    def finish(self, wall, write_evidence=True):
        prop = self.prop
        evaluations = sum(r.get("evaluations", 0) for r in self.results)
        distinct = sum(r.get("distinct_nontrivial", 0) for r in self.results)
        samples, classes, known_seen, notes = [], {}, {}, []
        rules, exhaustive = [], bool(self.results)
        for r in self.results:
            samples += r.get("samples", [])
            for k, v in r.get("classes", {}).items():
                kk = k if len(self.results) == 1 else f"{r.get('_label','')}/{k}"
                classes[kk] = classes.get(kk, 0) + v
            for k, v in r.get("known_seen", {}).items():
                known_seen[k] = known_seen.get(k, 0) + v
            if r.get("rule") and r["rule"] not in rules:
                rules.append(r["rule"])
            for x in r.get("assumptions", []):
                if x not in self.assumptions:
                    self.assumptions.append(x)
            notes += r.get("notes", [])
            exhaustive = exhaustive and bool(r.get("exhaustive"))
        new_violations = []
        for r in self.results:
            for v in r.get("violations", []):
                key = v.get("key", "unclassified")
                if key in self.known["known"]:
                    known_seen[key] = known_seen.get(key, 0) + 1
                    continue
                new_violations.append((r, v))
        # known findings: one line each, never an alarm
        for key, e in sorted(self.known["known"].items()):
            print(f"KNOWN-FINDING: property={prop} {key}: {e['what']} (observed in {known_seen.get(key, 0)} cases of this run)")
        rc = 0
        seen_keys = set()
        for r, v in new_violations:
            key = v.get("key", "unclassified")
            sub = v.get("sub", "")
            if (sub, key) in seen_keys:
                continue
            seen_keys.add((sub, key))
            rc = 1
            if self.replay:
                path = os.path.abspath(self.replay)
            else:
                body = {"property": prop, "engine": r.get("_label", ""), "sub": sub, "seed": self.seed,
                        "key": key, "what": v.get("what", ""), "case": v.get("case")}
                h = hashlib.sha1(json.dumps([sub, key, body["case"]], sort_keys=True).encode()).hexdigest()[:12]
                d = os.path.join(ROOT, "replays", "found", prop)
                os.makedirs(d, exist_ok=True)
                path = os.path.join(d, f"{prop}-{h}.json")
                json.dump(body, open(path, "w"), indent=1)
            fixed = self.known["fixed"].get(key)
            extra = f" (regression of a defect recorded as fixed in {fixed.get('commit','?')})" if fixed else ""
            print(f"  {sub} [{key}]: {v.get('what','')[:600]}{extra}")
            print(f"VIOLATION property={prop} replay={path}")
        for msg in self.inconclusive:
            print(f"INCONCLUSIVE property={prop} {msg}", file=sys.stderr)
        if write_evidence:
            cov = {
                "evaluations": evaluations,
                "distinct_nontrivial": distinct,
                "rule": " || ".join(rules),
                "samples": samples[:16],
                "exhaustive": exhaustive,
                "classes": classes,
                "excluded_known": known_seen,
            }
            if notes:
                cov["notes"] = notes[:40]
            cov.update(self.extra_cov)
            ev = {
                "property_id": prop,
                "tier": self.tier,
                "seed": self.seed,
                "level": self.level,
                "coverage": cov,
                "assumptions": self.assumptions,
                "wall_s": round(wall, 2),
                "violations": len(seen_keys),
            }
            os.makedirs(os.path.join(ROOT, "evidence"), exist_ok=True)
            tmp = os.path.join(ROOT, "evidence", f".{prop}.json.tmp")
            json.dump(ev, open(tmp, "w"), indent=1)
            os.replace(tmp, os.path.join(ROOT, "evidence", f"{prop}.json"))
        if rc == 0 and self.inconclusive and evaluations == 0:
            return 2
        if rc == 0:
            print(f"OK property={prop} tier={self.tier} seed={self.seed} evaluations={evaluations} distinct_nontrivial={distinct} wall={wall:.1f}s")
        return rc


def saved_replays(prop):
    d = os.path.join(ROOT, "replays", prop)
    if not os.path.isdir(d):
        return []
    return sorted(os.path.join(d, f) for f in os.listdir(d) if f.endswith(".json"))
