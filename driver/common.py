"""Shared plumbing of the check driver: building, running, findings protocol, evidence."""
import os, sys, json, subprocess, hashlib, time, shutil

ROOT = os.path.dirname(os.path.dirname(os.path.abspath(__file__)))
HARNESS = os.path.join(ROOT, "harness")
TARGET = os.path.join(ROOT, "target")
WORK = os.path.join(ROOT, "work")
REPO = os.environ.get("VERIF_REPO", "/repo")
NCPU = os.cpu_count() or 4

ENV = dict(os.environ)
ENV.update({"CARGO_NET_OFFLINE": "true", "CARGO_TERM_COLOR": "never", "RUST_BACKTRACE": "0"})


class Infra(Exception):
    """Something outside the property went wrong (build of the harness itself, time-out, tool missing)."""


def load_known(prop):
    p = os.path.join(ROOT, "known_findings.json")
    if not os.path.exists(p):
        return {"known": {}, "fixed": {}}
    data = json.load(open(p))
    out = {"known": {}, "fixed": {}}
    for e in data.get("findings", []):
        if e["property"] != prop:
            continue
        out["known" if e["status"] == "known" else "fixed"][e["key"]] = e
    return out


def sh(cmd, cwd=None, timeout=None, env=None, check=False, capture=True):
    try:
        r = subprocess.run(cmd, cwd=cwd, timeout=timeout, env=env or ENV,
                           stdout=subprocess.PIPE if capture else None,
                           stderr=subprocess.STDOUT if capture else None, text=True)
    except subprocess.TimeoutExpired:
        raise Infra(f"time-out after {timeout}s: {' '.join(cmd)[:200]}")
    if check and r.returncode != 0:
        raise Infra(f"command failed ({r.returncode}): {' '.join(cmd)[:200]}\n{(r.stdout or '')[-3000:]}")
    return r


def cargo_build(package, release=False, features=None, cwd=HARNESS, extra=None, timeout=1800, target_dir=None, toolchain=None, env=None):
    cmd = ["cargo"]
    if toolchain:
        cmd.append("+" + toolchain)
    cmd += ["build", "-p", package, "--offline"]
    if release:
        cmd.append("--release")
    if features:
        cmd += ["--features", ",".join(features)]
    if target_dir:
        cmd += ["--target-dir", target_dir]
    if extra:
        cmd += extra
    r = sh(cmd, cwd=cwd, timeout=timeout, env=env)
    if r.returncode != 0:
        return False, r.stdout
    return True, r.stdout


def bin_path(name, release=False, target_dir=TARGET):
    return os.path.join(target_dir, "release" if release else "debug", name)


class Run:
    def __init__(self, prop, tier, seed, replay, known):
        self.prop, self.tier, self.seed, self.replay, self.known = prop, tier, seed, replay, known
        self.results = []       # result dicts of sub-runs
        self.extra_cov = {}     # extra coverage keys
        self.assumptions = []
        self.level = "exploration"
        self.inconclusive = []

    # -- running Rust harness binaries that follow the verifkit result protocol ---------------
    def _harness_cmd(self, binary, out, args, replay=None, journal=None):
        cmd = [binary, self.prop, "--tier", getattr(self, "tier_override", None) or self.tier, "--seed", str(self.seed), "--out", out]
        keys = sorted(self.known["known"].keys())
        if keys:
            cmd += ["--known", ",".join(keys)]
        if replay:
            cmd += ["--replay", os.path.abspath(replay)]
        if journal:
            cmd += ["--journal", journal]
        if args:
            cmd += args
        return cmd

    def run_harness(self, binary, args=None, timeout=3600, env=None, label=None, replay_file=None):
        """replay_file: a saved regression case (replays/<ID>/*.json) to run instead of generation"""
        os.makedirs(WORK, exist_ok=True)
        label = label or os.path.basename(binary)
        safe = "".join(c if c.isalnum() or c in "-_." else "_" for c in label)[:80]
        out = os.path.join(WORK, f"result-{self.prop}-{safe}-{os.getpid()}.json")
        if os.path.exists(out):
            os.remove(out)
        e = dict(ENV)
        if env:
            e.update(env)
        r = sh(self._harness_cmd(binary, out, args, replay=replay_file or self.replay), timeout=timeout, env=e)
        if not os.path.exists(out):
            if r.returncode < 0 or r.returncode in (101, 134):
                return self._crashed(binary, args, e, timeout, label, r, replay_file)
            raise Infra(f"{label} produced no result (exit {r.returncode}):\n{(r.stdout or '')[-3000:]}")
        res = json.load(open(out))
        os.remove(out)
        res["_label"] = label
        self.results.append(res)
        return res

    def _crashed(self, binary, args, e, timeout, label, r, replay_file=None):
        """The harness process died (signal / abort): find the case with a journalled re-run,
        confirm it by replay, minimise it by delta debugging on its list-valued fields."""
        sig = f"exit{r.returncode}" if r.returncode >= 0 else f"signal{-r.returncode}"
        safe = "".join(c if c.isalnum() or c in "-_." else "_" for c in label)[:80]
        out = os.path.join(WORK, f"result-{self.prop}-{safe}-{os.getpid()}-j.json")
        if replay_file or self.replay:
            body = json.load(open(replay_file or self.replay))
            res = {"_label": label, "evaluations": 1, "distinct_nontrivial": 0, "violations": [
                {"sub": body.get("sub", ""), "key": f"crash", "what": f"harness process died ({sig}) while executing the replay case", "case": body.get("case")}]}
            self.results.append(res)
            return res
        journal = os.path.join(WORK, f"journal-{self.prop}-{safe}-{os.getpid()}.json")
        r2 = sh(self._harness_cmd(binary, out, args, journal=journal), timeout=timeout, env=e)
        if os.path.exists(out) or not os.path.exists(journal):
            raise Infra(f"{label} died ({sig}) but the crash did not reproduce under the journal re-run")
        try:
            body = json.load(open(journal))
        except Exception:
            raise Infra(f"{label} died ({sig}); journal unreadable")
        os.remove(journal)

        def crashes(case):
            tmp = os.path.join(WORK, f"ddmin-{self.prop}-{os.getpid()}.json")
            json.dump({"property": self.prop, "sub": body["sub"], "case": case}, open(tmp, "w"))
            o = tmp + ".out"
            if os.path.exists(o):
                os.remove(o)
            try:
                rr = sh(self._harness_cmd(binary, o, args, replay=tmp), timeout=120, env=e)
            except Infra:
                return False
            died = not os.path.exists(o)
            if not died:
                os.remove(o)
            return died and (rr.returncode < 0 or rr.returncode in (101, 134))

        case = body["case"]
        if crashes(case):
            case = ddmin_json(case, crashes, budget=150)
            confirmed = "confirmed by replay, minimised by delta debugging"
        else:
            confirmed = "died twice in full runs; the journalled case alone did not reproduce it"
        res = {"_label": label, "evaluations": 0, "distinct_nontrivial": 0, "violations": [
            {"sub": body["sub"], "key": "crash", "what": f"harness process died ({sig}) inside this case ({confirmed}); output tail: {(r.stdout or '')[-300:]}", "case": case}]}
        self.results.append(res)
        return res

    def add_result(self, res):
        self.results.append(res)

    # -- the end: findings protocol + evidence ----------------------------------------------
    def finish(self, wall, write_evidence=True):
        prop = self.prop
        evaluations = sum(r.get("evaluations", 0) for r in self.results)
        distinct = sum(r.get("distinct_nontrivial", 0) for r in self.results)
        samples, classes, known_seen, notes = [], {}, {}, []
        rules, exhaustive = [], bool(self.results)
        for r in self.results:
            samples += r.get("samples", [])
            for k, v in r.get("classes", {}).items():
                kk = k if len(self.results) == 1 else f"{r.get('_label','')}/{k}"
                classes[kk] = classes.get(kk, 0) + v
            for k, v in r.get("known_seen", {}).items():
                known_seen[k] = known_seen.get(k, 0) + v
            if r.get("rule") and r["rule"] not in rules:
                rules.append(r["rule"])
            for x in r.get("assumptions", []):
                if x not in self.assumptions:
                    self.assumptions.append(x)
            notes += r.get("notes", [])
            exhaustive = exhaustive and bool(r.get("exhaustive"))
        new_violations = []
        for r in self.results:
            for v in r.get("violations", []):
                key = v.get("key", "unclassified")
                if key in self.known["known"]:
                    known_seen[key] = known_seen.get(key, 0) + 1
                    continue
                new_violations.append((r, v))
        # known findings: one line each, never an alarm
        for key, e in sorted(self.known["known"].items()):
            print(f"KNOWN-FINDING: property={prop} {key}: {e['what']} (observed in {known_seen.get(key, 0)} cases of this run)")
        rc = 0
        seen_keys = set()
        for r, v in new_violations:
            key = v.get("key", "unclassified")
            sub = v.get("sub", "")
            if (sub, key) in seen_keys:
                continue
            seen_keys.add((sub, key))
            rc = 1
            if self.replay:
                path = os.path.abspath(self.replay)
            else:
                body = {"property": prop, "engine": r.get("_label", ""), "sub": sub, "seed": self.seed,
                        "key": key, "what": v.get("what", ""), "case": v.get("case")}
                if r.get("_params"):
                    body["engine_params"] = r["_params"]
                h = hashlib.sha1(json.dumps([sub, key, body["case"]], sort_keys=True).encode()).hexdigest()[:12]
                d = os.path.join(ROOT, "replays", "found", prop)
                os.makedirs(d, exist_ok=True)
                path = os.path.join(d, f"{prop}-{h}.json")
                json.dump(body, open(path, "w"), indent=1)
            fixed = self.known["fixed"].get(key)
            extra = f" (regression of a defect recorded as fixed in {fixed.get('commit','?')})" if fixed else ""
            print(f"  {sub} [{key}]: {v.get('what','')[:600]}{extra}")
            print(f"VIOLATION property={prop} replay={path}")
        for msg in self.inconclusive:
            print(f"INCONCLUSIVE property={prop} {msg}", file=sys.stderr)
        if write_evidence:
            cov = {
                "evaluations": evaluations,
                "distinct_nontrivial": distinct,
                "rule": " || ".join(rules),
                "samples": samples[:16],
                "exhaustive": exhaustive,
                "classes": classes,
                "excluded_known": known_seen,
            }
            if notes:
                cov["notes"] = notes[:40]
            cov.update(self.extra_cov)
            ev = {
                "property_id": prop,
                "tier": self.tier,
                "seed": self.seed,
                "level": self.level,
                "coverage": cov,
                "assumptions": self.assumptions,
                "wall_s": round(wall, 2),
                "violations": len(seen_keys),
            }
            os.makedirs(os.path.join(ROOT, "evidence"), exist_ok=True)
            tmp = os.path.join(ROOT, "evidence", f".{prop}.json.tmp")
            json.dump(ev, open(tmp, "w"), indent=1)
            os.replace(tmp, os.path.join(ROOT, "evidence", f"{prop}.json"))
        if rc == 0 and self.inconclusive and evaluations == 0:
            return 2
        if rc == 0:
            print(f"OK property={prop} tier={self.tier} seed={self.seed} evaluations={evaluations} distinct_nontrivial={distinct} wall={wall:.1f}s")
        return rc


def _list_paths(v, path=()):
    """paths of all lists inside a JSON value"""
    out = []
    if isinstance(v, list):
        out.append(path)
        for i, x in enumerate(v):
            out += _list_paths(x, path + (i,))
    elif isinstance(v, dict):
        for k, x in v.items():
            out += _list_paths(x, path + (k,))
    return out


def _get(v, path):
    for k in path:
        v = v[k]
    return v


def _set(v, path, new):
    import copy
    v = copy.deepcopy(v)
    if not path:
        return new
    cur = v
    for k in path[:-1]:
        cur = cur[k]
    cur[path[-1]] = new
    return v


def ddmin_json(case, still_fails, budget=150):
    """Greedy delta debugging: repeatedly try to delete chunks of any list in the case."""
    used = 0
    progress = True
    while progress and used < budget:
        progress = False
        for path in sorted(_list_paths(case), key=lambda p: -len(_get(case, p))):
            try:
                lst = _get(case, path)
            except (KeyError, IndexError, TypeError):
                continue
            if not isinstance(lst, list) or not lst:
                continue
            chunk = max(1, len(lst) // 2)
            while chunk >= 1 and used < budget:
                i = 0
                removed = False
                while i < len(lst) and used < budget:
                    cand = lst[:i] + lst[i + chunk:]
                    trial = _set(case, path, cand)
                    used += 1
                    if still_fails(trial):
                        case, lst, removed, progress = trial, cand, True, True
                    else:
                        i += chunk
                if not removed:
                    chunk //= 2
                elif chunk > len(lst):
                    chunk = max(1, len(lst) // 2)
    return case


def saved_replays(prop):
    d = os.path.join(ROOT, "replays", prop)
    if not os.path.isdir(d):
        return []
    return sorted(os.path.join(d, f) for f in os.listdir(d) if f.endswith(".json"))
