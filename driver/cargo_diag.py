"""Run cargo and map rustc diagnostics to source files."""
import json, subprocess, os
from common import ENV

def build(crate_dir, target_dir, release=False, timeout=3600, extra_env=None):
    cmd = ["cargo", "build", "--offline", "--message-format=json"]
    if release:
        cmd.append("--release")
    env = dict(ENV)
    env["CARGO_TARGET_DIR"] = target_dir
    if extra_env:
        env.update(extra_env)
    r = subprocess.run(cmd, cwd=crate_dir, env=env, stdout=subprocess.PIPE, stderr=subprocess.PIPE, text=True, timeout=timeout)
    errors = {}
    exe = None
    for l in r.stdout.splitlines():
        try:
            d = json.loads(l)
        except Exception:
            continue
        if d.get("reason") == "compiler-artifact" and d.get("executable"):
            exe = d["executable"]
        if d.get("reason") != "compiler-message":
            continue
        m = d["message"]
        if m["level"] != "error":
            continue
        f = None
        for sp in m.get("spans", []):
            f = sp.get("file_name")
            # macro expansions: walk to the outermost call site
            e = sp.get("expansion")
            while e:
                f = e["span"].get("file_name", f)
                e = e["span"].get("expansion")
            break
        errors.setdefault(f, []).append(m["message"][:300])
    return r.returncode == 0, exe, errors, r.stderr[-3000:]
