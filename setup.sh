#!/bin/bash
# Builds the harness crates once, offline, and warms the build caches of the generated crates.
# Checks rebuild incrementally against /repo's current tree.
set -e
cd "$(dirname "$0")"
export CARGO_NET_OFFLINE=true
(cd harness && cargo build --offline -p rtprops -p pbsupport -p expander 2>&1 | tail -1)
(cd harness && cargo build --offline --release -p rtprops 2>&1 | tail -1)
# the runtime harness against the library's other configuration (no `std` feature, trace logging)
(cd harness && cargo build --offline --release -p rtprops --no-default-features --features altcfg --target-dir /verif/target/alt 2>&1 | tail -1)
(cd harness && cargo build --offline --release -p rtprops --no-default-features --features altcfg-std --target-dir /verif/target/alt-std 2>&1 | tail -1)
(cd /repo && CARGO_TARGET_DIR=/verif/target/bindgen cargo build --offline -p cglue-bindgen 2>&1 | tail -1)
# warm-up: one pass over the checks that compile generated crates (results are discarded here)
for p in C01 C03 C05 C08 C09 C17 C20; do
  ./check $p --tier quick --no-evidence > /dev/null 2>&1 || true
done
echo setup done
