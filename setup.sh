#!/bin/bash
# Builds the harness crates once, offline. Checks rebuild incrementally against /repo's current tree.
set -e
cd "$(dirname "$0")/harness"
export CARGO_NET_OFFLINE=true
cargo build --offline -p rtprops -p pbsupport -p expander
(cd /repo && CARGO_TARGET_DIR=/verif/target/bindgen cargo build --offline -p cglue-bindgen 2>&1 | tail -1) 2>&1 | tail -2
cargo build --offline --release -p rtprops 2>&1 | tail -2
echo setup done
