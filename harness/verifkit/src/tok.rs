//! Drop tokens: payloads whose destruction is counted per identity.
use std::sync::atomic::{AtomicU32, AtomicU64, AtomicUsize, Ordering};

pub const MAX_TOK: usize = 1 << 16;
#[allow(clippy::declare_interior_mutable_const)]
const Z: AtomicU32 = AtomicU32::new(0);
static DROPS: [AtomicU32; MAX_TOK] = [Z; MAX_TOK];
static NEXT: AtomicUsize = AtomicUsize::new(0);
static ZST_NEW: AtomicU64 = AtomicU64::new(0);
static ZST_DROP: AtomicU64 = AtomicU64::new(0);

/// Forget all tokens (start of a case).
pub fn reset() {
    let n = NEXT.swap(0, Ordering::SeqCst).min(MAX_TOK);
    for d in DROPS.iter().take(n) {
        d.store(0, Ordering::SeqCst);
    }
    ZST_NEW.store(0, Ordering::SeqCst);
    ZST_DROP.store(0, Ordering::SeqCst);
}

pub fn issued() -> usize {
    NEXT.load(Ordering::SeqCst)
}

pub fn drops(id: u32) -> u32 {
    DROPS[id as usize].load(Ordering::SeqCst)
}

/// Token ids whose drop count differs from `expect(id)`.
pub fn mismatches(expect: impl Fn(u32) -> u32) -> Vec<(u32, u32, u32)> {
    let mut v = Vec::new();
    for id in 0..issued() as u32 {
        let d = drops(id);
        let e = expect(id);
        if d != e {
            v.push((id, e, d));
        }
    }
    v
}

/// A token without heap state.
#[derive(Debug)]
pub struct Tok {
    pub id: u32,
    pub val: u64,
}

impl Tok {
    pub fn new(val: u64) -> Self {
        let id = NEXT.fetch_add(1, Ordering::SeqCst);
        assert!(id < MAX_TOK, "too many tokens in one case");
        Tok { id: id as u32, val }
    }
}

impl Drop for Tok {
    fn drop(&mut self) {
        DROPS[self.id as usize].fetch_add(1, Ordering::SeqCst);
    }
}

// Cloning a token makes a *new* identity with the same value (like cloning a String).
impl Clone for Tok {
    fn clone(&self) -> Self {
        Tok::new(self.val)
    }
}
impl PartialEq for Tok {
    fn eq(&self, o: &Self) -> bool {
        self.val == o.val
    }
}
impl Eq for Tok {}
impl PartialOrd for Tok {
    fn partial_cmp(&self, o: &Self) -> Option<std::cmp::Ordering> {
        Some(self.cmp(o))
    }
}
impl Ord for Tok {
    fn cmp(&self, o: &Self) -> std::cmp::Ordering {
        self.val.cmp(&o.val)
    }
}

/// A token that also owns a heap block (so leaks and double frees are visible to the allocator).
#[derive(Debug, Clone, PartialEq, Eq, PartialOrd, Ord)]
pub struct HeapTok {
    pub tok: Tok,
    pub heap: Box<u64>,
}

impl HeapTok {
    pub fn new(val: u64) -> Self {
        HeapTok {
            tok: Tok::new(val),
            heap: Box::new(val ^ 0x5555_5555_5555_5555),
        }
    }
    pub fn id(&self) -> u32 {
        self.tok.id
    }
    pub fn val(&self) -> u64 {
        assert_eq!(*self.heap ^ 0x5555_5555_5555_5555, self.tok.val, "heap part of token corrupted");
        self.tok.val
    }
}

/// Zero-sized droppable payload; only totals can be counted.
#[derive(Debug, PartialEq, Eq)]
pub struct ZTok;
impl ZTok {
    #[allow(clippy::new_without_default)]
    pub fn new() -> Self {
        ZST_NEW.fetch_add(1, Ordering::SeqCst);
        ZTok
    }
}
impl Clone for ZTok {
    fn clone(&self) -> Self {
        ZTok::new()
    }
}
impl Drop for ZTok {
    fn drop(&mut self) {
        ZST_DROP.fetch_add(1, Ordering::SeqCst);
    }
}
pub fn zst_counts() -> (u64, u64) {
    (ZST_NEW.load(Ordering::SeqCst), ZST_DROP.load(Ordering::SeqCst))
}
