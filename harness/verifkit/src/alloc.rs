//! Tracking global allocator.
//!
//! Every live heap block of the process is recorded in a fixed-size open-addressing table
//! (static storage, so the tracker itself never allocates). A *window* is opened with
//! [`begin`] and closed with [`end`]; `end` reports the blocks that were allocated inside the
//! window and are still live, plus every mis-use seen inside the window:
//!
//! * free / realloc with a layout different from the one the block was allocated with,
//! * free of a pointer that is not a live block (double free, foreign pointer) -- such a free
//!   is *not* forwarded to the system allocator, so the process survives to report it.
//!
//! Allocations made while the calling thread holds an [`Exempt`] guard are recorded as exempt
//! (book-keeping of the harness itself: registries, result collection).
//!
//! Every block is surrounded by a red zone of `RZ` canary bytes on both sides; the canaries
//! are verified on free/realloc and at `end` for still-live window blocks (out-of-bounds
//! writes), and the user area of a fresh block is filled with 0xA5 / of a freed block with
//! 0xDD so that reads of uninitialised or freed memory give recognisable garbage.

use std::alloc::{GlobalAlloc, Layout, System};
use std::cell::Cell;
use std::sync::atomic::{AtomicBool, AtomicU32, AtomicU64, AtomicUsize, Ordering};

const TABLE_BITS: usize = 21;
const TABLE_SIZE: usize = 1 << TABLE_BITS;
const RZ: usize = 16;
const CANARY: u8 = 0xC7;

#[derive(Clone, Copy)]
struct Entry {
    ptr: usize, // 0 = empty, 1 = tombstone
    size: usize,
    align: u32,
    epoch: u32, // 0 = exempt / outside window
}

static mut TABLE: [Entry; TABLE_SIZE] = [Entry {
    ptr: 0,
    size: 0,
    align: 0,
    epoch: 0,
}; TABLE_SIZE];
static LOCK: AtomicBool = AtomicBool::new(false);
static EPOCH: AtomicU32 = AtomicU32::new(0); // current window id, 0 = no window
static NEXT_EPOCH: AtomicU32 = AtomicU32::new(1);
static USED: AtomicUsize = AtomicUsize::new(0);

static WINDOW_LIVE: std::sync::atomic::AtomicI64 = std::sync::atomic::AtomicI64::new(0);
pub static WINDOW_ALLOCS: AtomicU64 = AtomicU64::new(0);
pub static WINDOW_FREES: AtomicU64 = AtomicU64::new(0);
pub static WINDOW_REALLOCS: AtomicU64 = AtomicU64::new(0);

#[derive(Clone, Copy, Debug)]
pub struct Misuse {
    /// 1 = free with wrong layout, 2 = free of unknown pointer, 3 = realloc with wrong layout,
    /// 4 = realloc of unknown pointer, 5 = canary damaged
    pub kind: u8,
    pub ptr: usize,
    pub recorded_size: usize,
    pub recorded_align: usize,
    pub given_size: usize,
    pub given_align: usize,
}

const MAX_MISUSE: usize = 64;
static mut MISUSES: [Misuse; MAX_MISUSE] = [Misuse {
    kind: 0,
    ptr: 0,
    recorded_size: 0,
    recorded_align: 0,
    given_size: 0,
    given_align: 0,
}; MAX_MISUSE];
static N_MISUSE: AtomicUsize = AtomicUsize::new(0);

thread_local! {
    static EXEMPT: Cell<u32> = const { Cell::new(0) };
}

pub struct Exempt(());
impl Exempt {
    pub fn new() -> Self {
        EXEMPT.with(|e| e.set(e.get() + 1));
        Exempt(())
    }
}
impl Default for Exempt {
    fn default() -> Self {
        Self::new()
    }
}
impl Drop for Exempt {
    fn drop(&mut self) {
        EXEMPT.with(|e| e.set(e.get() - 1));
    }
}

/// Run `f` with allocations of this thread marked exempt from the leak check.
pub fn exempt<R>(f: impl FnOnce() -> R) -> R {
    let _g = Exempt::new();
    f()
}

fn lock() {
    while LOCK
        .compare_exchange_weak(false, true, Ordering::Acquire, Ordering::Relaxed)
        .is_err()
    {
        std::hint::spin_loop();
    }
}
fn unlock() {
    LOCK.store(false, Ordering::Release);
}

#[inline]
fn hash(p: usize) -> usize {
    (p >> 4).wrapping_mul(0x9E37_79B9_7F4A_7C15) >> (64 - TABLE_BITS)
}

#[allow(static_mut_refs)]
unsafe fn table_insert(ptr: usize, size: usize, align: usize, epoch: u32) {
    let mut i = hash(ptr);
    loop {
        let e = &mut TABLE[i];
        if e.ptr == 0 || e.ptr == 1 {
            *e = Entry {
                ptr,
                size,
                align: align as u32,
                epoch,
            };
            USED.fetch_add(1, Ordering::Relaxed);
            return;
        }
        i = (i + 1) & (TABLE_SIZE - 1);
    }
}

#[allow(static_mut_refs)]
unsafe fn table_find(ptr: usize) -> Option<usize> {
    let mut i = hash(ptr);
    let mut n = 0;
    loop {
        let e = &TABLE[i];
        if e.ptr == ptr {
            return Some(i);
        }
        if e.ptr == 0 {
            return None;
        }
        i = (i + 1) & (TABLE_SIZE - 1);
        n += 1;
        if n > TABLE_SIZE {
            return None;
        }
    }
}

#[allow(static_mut_refs)]
unsafe fn table_remove(i: usize) {
    // keep probe chains intact
    let next = (i + 1) & (TABLE_SIZE - 1);
    TABLE[i].ptr = if TABLE[next].ptr == 0 { 0 } else { 1 };
    USED.fetch_sub(1, Ordering::Relaxed);
}

#[allow(static_mut_refs)]
unsafe fn misuse(m: Misuse) {
    let n = N_MISUSE.fetch_add(1, Ordering::Relaxed);
    if n < MAX_MISUSE {
        MISUSES[n] = m;
    }
}

fn cur_epoch() -> u32 {
    let e = EPOCH.load(Ordering::Relaxed);
    if e == 0 {
        return 0;
    }
    // try_with: allocation can happen during TLS teardown
    let ex = EXEMPT.try_with(|x| x.get()).unwrap_or(1);
    if ex > 0 {
        0
    } else {
        e
    }
}

#[inline]
fn pad(align: usize) -> usize {
    // red zone in front, rounded up so the user pointer keeps its alignment
    (RZ + align - 1) / align * align
}

unsafe fn check_canaries(base: *mut u8, front: usize, size: usize) -> bool {
    let mut ok = true;
    for k in 0..front {
        if *base.add(k) != CANARY {
            ok = false;
        }
    }
    for k in 0..RZ {
        if *base.add(front + size + k) != CANARY {
            ok = false;
        }
    }
    ok
}

pub struct Tracking;

unsafe impl GlobalAlloc for Tracking {
    unsafe fn alloc(&self, layout: Layout) -> *mut u8 {
        let front = pad(layout.align());
        let total = front + layout.size() + RZ;
        let base = System.alloc(Layout::from_size_align_unchecked(total, layout.align()));
        if base.is_null() {
            return base;
        }
        std::ptr::write_bytes(base, CANARY, front);
        std::ptr::write_bytes(base.add(front), 0xA5, layout.size());
        std::ptr::write_bytes(base.add(front + layout.size()), CANARY, RZ);
        let p = base.add(front);
        let ep = cur_epoch();
        lock();
        table_insert(p as usize, layout.size(), layout.align(), ep);
        unlock();
        if ep != 0 {
            WINDOW_ALLOCS.fetch_add(1, Ordering::Relaxed);
            WINDOW_LIVE.fetch_add(1, Ordering::Relaxed);
        }
        p
    }

    unsafe fn alloc_zeroed(&self, layout: Layout) -> *mut u8 {
        let p = self.alloc(layout);
        if !p.is_null() {
            std::ptr::write_bytes(p, 0, layout.size());
        }
        p
    }

    unsafe fn dealloc(&self, ptr: *mut u8, layout: Layout) {
        lock();
        let found = table_find(ptr as usize);
        let (true_size, true_align) = match found {
            Some(i) => {
                #[allow(static_mut_refs)]
                let e = TABLE[i];
                table_remove(i);
                if e.epoch != 0 && e.epoch == EPOCH.load(Ordering::Relaxed) {
                    WINDOW_LIVE.fetch_sub(1, Ordering::Relaxed);
                }
                (e.size, e.align as usize)
            }
            None => {
                unlock();
                misuse(Misuse {
                    kind: 2,
                    ptr: ptr as usize,
                    recorded_size: 0,
                    recorded_align: 0,
                    given_size: layout.size(),
                    given_align: layout.align(),
                });
                return; // do not forward: keeps the process alive
            }
        };
        unlock();
        if EPOCH.load(Ordering::Relaxed) != 0 {
            WINDOW_FREES.fetch_add(1, Ordering::Relaxed);
        }
        if true_size != layout.size() || true_align != layout.align() {
            misuse(Misuse {
                kind: 1,
                ptr: ptr as usize,
                recorded_size: true_size,
                recorded_align: true_align,
                given_size: layout.size(),
                given_align: layout.align(),
            });
        }
        let front = pad(true_align);
        let base = ptr.sub(front);
        if !check_canaries(base, front, true_size) {
            misuse(Misuse {
                kind: 5,
                ptr: ptr as usize,
                recorded_size: true_size,
                recorded_align: true_align,
                given_size: layout.size(),
                given_align: layout.align(),
            });
        }
        std::ptr::write_bytes(ptr, 0xDD, true_size);
        System.dealloc(
            base,
            Layout::from_size_align_unchecked(front + true_size + RZ, true_align),
        );
    }

    unsafe fn realloc(&self, ptr: *mut u8, layout: Layout, new_size: usize) -> *mut u8 {
        // alloc + copy + dealloc through ourselves, so that all checks apply
        lock();
        let found = table_find(ptr as usize);
        let rec = found.map(|i| {
            #[allow(static_mut_refs)]
            TABLE[i]
        });
        unlock();
        match rec {
            None => {
                misuse(Misuse {
                    kind: 4,
                    ptr: ptr as usize,
                    recorded_size: 0,
                    recorded_align: 0,
                    given_size: layout.size(),
                    given_align: layout.align(),
                });
                // behave like a fresh allocation; copy nothing from the unknown block
                self.alloc(Layout::from_size_align_unchecked(new_size, layout.align()))
            }
            Some(e) => {
                if e.size != layout.size() || e.align as usize != layout.align() {
                    misuse(Misuse {
                        kind: 3,
                        ptr: ptr as usize,
                        recorded_size: e.size,
                        recorded_align: e.align as usize,
                        given_size: layout.size(),
                        given_align: layout.align(),
                    });
                }
                if EPOCH.load(Ordering::Relaxed) != 0 {
                    WINDOW_REALLOCS.fetch_add(1, Ordering::Relaxed);
                }
                let np = self.alloc(Layout::from_size_align_unchecked(
                    new_size,
                    e.align as usize,
                ));
                if !np.is_null() {
                    std::ptr::copy_nonoverlapping(ptr, np, e.size.min(new_size));
                    self.dealloc(
                        ptr,
                        Layout::from_size_align_unchecked(e.size, e.align as usize),
                    );
                }
                np
            }
        }
    }
}

#[derive(Debug, Clone, Default)]
pub struct Report {
    /// (size, align) of blocks allocated in the window and still live at its end
    pub leaked: Vec<(usize, usize)>,
    pub misuses: Vec<Misuse>,
    pub allocs: u64,
    pub frees: u64,
    pub reallocs: u64,
}

impl Report {
    pub fn clean(&self) -> bool {
        self.leaked.is_empty() && self.misuses.is_empty()
    }
    pub fn describe(&self) -> String {
        let mut s = String::new();
        if !self.leaked.is_empty() {
            s += &format!("leaked blocks (size,align): {:?}; ", self.leaked);
        }
        for m in &self.misuses {
            let k = match m.kind {
                1 => "free with wrong layout",
                2 => "free of unknown/already freed pointer",
                3 => "realloc with wrong layout",
                4 => "realloc of unknown pointer",
                5 => "red zone overwritten",
                _ => "?",
            };
            s += &format!(
                "{}: allocated ({},{}) given ({},{}); ",
                k, m.recorded_size, m.recorded_align, m.given_size, m.given_align
            );
        }
        s
    }
}

/// Open a window. Windows do not nest; only one is active per process.
pub fn begin() -> u32 {
    let ep = NEXT_EPOCH.fetch_add(1, Ordering::Relaxed);
    N_MISUSE.store(0, Ordering::Relaxed);
    WINDOW_ALLOCS.store(0, Ordering::Relaxed);
    WINDOW_FREES.store(0, Ordering::Relaxed);
    WINDOW_REALLOCS.store(0, Ordering::Relaxed);
    WINDOW_LIVE.store(0, Ordering::Relaxed);
    EPOCH.store(ep, Ordering::SeqCst);
    ep
}

/// Close the window `ep` and report.
#[allow(static_mut_refs)]
pub fn end(ep: u32) -> Report {
    EPOCH.store(0, Ordering::SeqCst);
    let mut rep = Report {
        allocs: WINDOW_ALLOCS.load(Ordering::Relaxed),
        frees: WINDOW_FREES.load(Ordering::Relaxed),
        reallocs: WINDOW_REALLOCS.load(Ordering::Relaxed),
        ..Default::default()
    };
    // collect into static buffers under the lock (no allocation while locked)
    let mut n_leaks = 0usize;
    let scan = WINDOW_LIVE.load(Ordering::SeqCst) != 0;
    lock();
    unsafe {
        for e in TABLE.iter_mut().take(if scan { TABLE_SIZE } else { 0 }) {
            if e.ptr > 1 && e.epoch == ep {
                let front = pad(e.align as usize);
                if !check_canaries((e.ptr as *mut u8).sub(front), front, e.size) {
                    misuse(Misuse {
                        kind: 5,
                        ptr: e.ptr,
                        recorded_size: e.size,
                        recorded_align: e.align as usize,
                        given_size: 0,
                        given_align: 0,
                    });
                }
                if n_leaks < MAX_LEAK {
                    LEAKS[n_leaks] = (e.size, e.align as usize);
                }
                n_leaks += 1;
                e.epoch = 0; // report once
            }
        }
    }
    unlock();
    for i in 0..n_leaks.min(MAX_LEAK) {
        rep.leaked.push(unsafe { LEAKS[i] });
    }
    for _ in MAX_LEAK..n_leaks {
        rep.leaked.push((usize::MAX, 0));
    }
    let n = N_MISUSE.load(Ordering::Relaxed).min(MAX_MISUSE);
    for i in 0..n {
        rep.misuses.push(unsafe { MISUSES[i] });
    }
    rep
}

const MAX_LEAK: usize = 256;
static mut LEAKS: [(usize, usize); MAX_LEAK] = [(0, 0); MAX_LEAK];

/// (size, align) of the live block whose user pointer is exactly `ptr`.
#[allow(static_mut_refs)]
pub fn block_of(ptr: usize) -> Option<(usize, usize)> {
    lock();
    let r = unsafe { table_find(ptr).map(|i| (TABLE[i].size, TABLE[i].align as usize)) };
    unlock();
    r
}

/// Number of live blocks currently recorded (whole process).
pub fn live_blocks() -> usize {
    USED.load(Ordering::Relaxed)
}
