//! A serde `Deserializer` over a fuzzer's byte string: every case type of the harness derives
//! `Deserialize`, so the same bytes->structure mapping serves all fuzz targets. Enum variants are
//! picked by `byte % n`, sequence lengths by `byte % 48`, integers are read little-endian; once the
//! bytes are used up everything reads as zero (which terminates sequences).
use serde::de::{self, DeserializeOwned, DeserializeSeed, EnumAccess, IntoDeserializer, MapAccess, SeqAccess, VariantAccess, Visitor};

pub struct Bytes<'a> {
    data: &'a [u8],
    pos: usize,
}

#[derive(Debug)]
pub struct Error(String);
impl std::fmt::Display for Error {
    fn fmt(&self, f: &mut std::fmt::Formatter) -> std::fmt::Result {
        f.write_str(&self.0)
    }
}
impl std::error::Error for Error {}
impl de::Error for Error {
    fn custom<T: std::fmt::Display>(msg: T) -> Self {
        Error(msg.to_string())
    }
}

impl<'a> Bytes<'a> {
    fn byte(&mut self) -> u8 {
        let b = self.data.get(self.pos).copied().unwrap_or(0);
        self.pos += 1;
        b
    }
    fn uint(&mut self, n: usize) -> u64 {
        let mut v = 0u64;
        for i in 0..n {
            v |= (self.byte() as u64) << (8 * i);
        }
        v
    }
    fn exhausted(&self) -> bool {
        self.pos >= self.data.len()
    }
}

pub fn from_fuzz_bytes<T: DeserializeOwned>(data: &[u8]) -> Option<T> {
    let mut b = Bytes { data, pos: 0 };
    T::deserialize(&mut b).ok()
}

macro_rules! de_int {
    ($f:ident, $v:ident, $t:ty, $n:expr) => {
        fn $f<V: Visitor<'de>>(self, visitor: V) -> Result<V::Value, Error> {
            visitor.$v(self.uint($n) as $t)
        }
    };
}

impl<'de, 'a, 'b> de::Deserializer<'de> for &'b mut Bytes<'a> {
    type Error = Error;

    fn deserialize_any<V: Visitor<'de>>(self, _: V) -> Result<V::Value, Error> {
        Err(Error("self-describing formats are not supported".into()))
    }
    fn deserialize_bool<V: Visitor<'de>>(self, visitor: V) -> Result<V::Value, Error> {
        visitor.visit_bool(self.byte() & 1 == 1)
    }
    de_int!(deserialize_i8, visit_i8, i8, 1);
    de_int!(deserialize_i16, visit_i16, i16, 2);
    de_int!(deserialize_i32, visit_i32, i32, 4);
    de_int!(deserialize_i64, visit_i64, i64, 8);
    de_int!(deserialize_u8, visit_u8, u8, 1);
    de_int!(deserialize_u16, visit_u16, u16, 2);
    de_int!(deserialize_u32, visit_u32, u32, 4);
    de_int!(deserialize_u64, visit_u64, u64, 8);
    fn deserialize_f32<V: Visitor<'de>>(self, visitor: V) -> Result<V::Value, Error> {
        visitor.visit_f32(f32::from_bits(self.uint(4) as u32))
    }
    fn deserialize_f64<V: Visitor<'de>>(self, visitor: V) -> Result<V::Value, Error> {
        visitor.visit_f64(f64::from_bits(self.uint(8)))
    }
    fn deserialize_char<V: Visitor<'de>>(self, visitor: V) -> Result<V::Value, Error> {
        visitor.visit_char(char::from_u32(self.uint(3) as u32 % 0x11_0000).unwrap_or('x'))
    }
    fn deserialize_str<V: Visitor<'de>>(self, visitor: V) -> Result<V::Value, Error> {
        self.deserialize_string(visitor)
    }
    fn deserialize_string<V: Visitor<'de>>(self, visitor: V) -> Result<V::Value, Error> {
        let n = (self.byte() % 32) as usize;
        let s: String = (0..n).map(|_| (b' ' + self.byte() % 95) as char).collect();
        visitor.visit_string(s)
    }
    fn deserialize_bytes<V: Visitor<'de>>(self, visitor: V) -> Result<V::Value, Error> {
        self.deserialize_byte_buf(visitor)
    }
    fn deserialize_byte_buf<V: Visitor<'de>>(self, visitor: V) -> Result<V::Value, Error> {
        let n = (self.byte() % 64) as usize;
        let v: Vec<u8> = (0..n).map(|_| self.byte()).collect();
        visitor.visit_byte_buf(v)
    }
    fn deserialize_option<V: Visitor<'de>>(self, visitor: V) -> Result<V::Value, Error> {
        if self.byte() % 4 == 0 {
            visitor.visit_none()
        } else {
            visitor.visit_some(self)
        }
    }
    fn deserialize_unit<V: Visitor<'de>>(self, visitor: V) -> Result<V::Value, Error> {
        visitor.visit_unit()
    }
    fn deserialize_unit_struct<V: Visitor<'de>>(self, _: &'static str, visitor: V) -> Result<V::Value, Error> {
        visitor.visit_unit()
    }
    fn deserialize_newtype_struct<V: Visitor<'de>>(self, _: &'static str, visitor: V) -> Result<V::Value, Error> {
        visitor.visit_newtype_struct(self)
    }
    fn deserialize_seq<V: Visitor<'de>>(self, visitor: V) -> Result<V::Value, Error> {
        let n = if self.exhausted() { 0 } else { (self.byte() % 48) as usize };
        visitor.visit_seq(Seq { de: self, left: n, stop_when_exhausted: true })
    }
    fn deserialize_tuple<V: Visitor<'de>>(self, len: usize, visitor: V) -> Result<V::Value, Error> {
        visitor.visit_seq(Seq { de: self, left: len, stop_when_exhausted: false })
    }
    fn deserialize_tuple_struct<V: Visitor<'de>>(self, _: &'static str, len: usize, visitor: V) -> Result<V::Value, Error> {
        visitor.visit_seq(Seq { de: self, left: len, stop_when_exhausted: false })
    }
    fn deserialize_map<V: Visitor<'de>>(self, visitor: V) -> Result<V::Value, Error> {
        let n = (self.byte() % 8) as usize;
        visitor.visit_map(Seq { de: self, left: n, stop_when_exhausted: true })
    }
    fn deserialize_struct<V: Visitor<'de>>(self, _: &'static str, fields: &'static [&'static str], visitor: V) -> Result<V::Value, Error> {
        visitor.visit_seq(Seq { de: self, left: fields.len(), stop_when_exhausted: false })
    }
    fn deserialize_enum<V: Visitor<'de>>(self, _: &'static str, variants: &'static [&'static str], visitor: V) -> Result<V::Value, Error> {
        let idx = self.byte() as usize % variants.len().max(1);
        visitor.visit_enum(Enum { de: self, idx: idx as u32 })
    }
    fn deserialize_identifier<V: Visitor<'de>>(self, _: V) -> Result<V::Value, Error> {
        Err(Error("identifiers are positional".into()))
    }
    fn deserialize_ignored_any<V: Visitor<'de>>(self, visitor: V) -> Result<V::Value, Error> {
        visitor.visit_unit()
    }
}

struct Seq<'b, 'a> {
    de: &'b mut Bytes<'a>,
    left: usize,
    stop_when_exhausted: bool,
}

impl<'de, 'b, 'a> SeqAccess<'de> for Seq<'b, 'a> {
    type Error = Error;
    fn next_element_seed<T: DeserializeSeed<'de>>(&mut self, seed: T) -> Result<Option<T::Value>, Error> {
        if self.left == 0 || (self.stop_when_exhausted && self.de.exhausted()) {
            return Ok(None);
        }
        self.left -= 1;
        seed.deserialize(&mut *self.de).map(Some)
    }
}

impl<'de, 'b, 'a> MapAccess<'de> for Seq<'b, 'a> {
    type Error = Error;
    fn next_key_seed<K: DeserializeSeed<'de>>(&mut self, seed: K) -> Result<Option<K::Value>, Error> {
        if self.left == 0 || self.de.exhausted() {
            return Ok(None);
        }
        self.left -= 1;
        seed.deserialize(&mut *self.de).map(Some)
    }
    fn next_value_seed<V: DeserializeSeed<'de>>(&mut self, seed: V) -> Result<V::Value, Error> {
        seed.deserialize(&mut *self.de)
    }
}

struct Enum<'b, 'a> {
    de: &'b mut Bytes<'a>,
    idx: u32,
}

impl<'de, 'b, 'a> EnumAccess<'de> for Enum<'b, 'a> {
    type Error = Error;
    type Variant = Self;
    fn variant_seed<V: DeserializeSeed<'de>>(self, seed: V) -> Result<(V::Value, Self), Error> {
        let v = seed.deserialize(IntoDeserializer::<Error>::into_deserializer(self.idx))?;
        Ok((v, self))
    }
}

impl<'de, 'b, 'a> VariantAccess<'de> for Enum<'b, 'a> {
    type Error = Error;
    fn unit_variant(self) -> Result<(), Error> {
        Ok(())
    }
    fn newtype_variant_seed<T: DeserializeSeed<'de>>(self, seed: T) -> Result<T::Value, Error> {
        seed.deserialize(self.de)
    }
    fn tuple_variant<V: Visitor<'de>>(self, len: usize, visitor: V) -> Result<V::Value, Error> {
        visitor.visit_seq(Seq { de: self.de, left: len, stop_when_exhausted: false })
    }
    fn struct_variant<V: Visitor<'de>>(self, fields: &'static [&'static str], visitor: V) -> Result<V::Value, Error> {
        visitor.visit_seq(Seq { de: self.de, left: fields.len(), stop_when_exhausted: false })
    }
}
