pub mod alloc;
pub mod fuzzde;
pub mod run;
pub mod tok;

pub use run::*;

/// FNV-1a, used for case digests and seed mixing (stable across processes, unlike `RandomState`).
#[derive(Clone, Copy)]
pub struct Fnv(pub u64);
impl Default for Fnv {
    fn default() -> Self {
        Fnv(0xcbf29ce484222325)
    }
}
impl Fnv {
    pub fn new() -> Self {
        Self::default()
    }
    pub fn bytes(&mut self, b: &[u8]) -> &mut Self {
        for x in b {
            self.0 ^= *x as u64;
            self.0 = self.0.wrapping_mul(0x100000001b3);
        }
        self
    }
    pub fn u64(&mut self, v: u64) -> &mut Self {
        self.bytes(&v.to_le_bytes())
    }
    pub fn str(&mut self, s: &str) -> &mut Self {
        self.bytes(s.as_bytes()).bytes(&[0xff])
    }
    pub fn get(&self) -> u64 {
        // final avalanche
        let mut h = self.0;
        h ^= h >> 33;
        h = h.wrapping_mul(0xff51afd7ed558ccd);
        h ^= h >> 33;
        h
    }
}
impl std::hash::Hasher for Fnv {
    fn finish(&self) -> u64 {
        self.get()
    }
    fn write(&mut self, b: &[u8]) {
        self.bytes(b);
    }
}

pub fn digest_of<T: std::hash::Hash>(t: &T) -> u64 {
    let mut h = Fnv::new();
    t.hash(&mut h);
    h.get()
}

pub fn mix_seed(seed: u64, tag: &str) -> u64 {
    let mut h = Fnv::new();
    h.u64(seed).str(tag);
    h.get()
}

/// Map a 16-bit choice monotonically onto 0..n (n >= 1), so that shrinking the choice shrinks the index.
pub fn pick(choice: u16, n: usize) -> usize {
    debug_assert!(n >= 1);
    ((choice as usize) * n) >> 16
}
