//! Case runner shared by all harness binaries: proptest driving, statistics, replay, result file.
use proptest::strategy::Strategy;
use proptest::test_runner::{Config, RngAlgorithm, RngSeed, TestCaseError, TestError, TestRunner};
use serde::{de::DeserializeOwned, Serialize};
use serde_json::{json, Value};
use std::collections::{BTreeMap, BTreeSet, HashSet};
use std::path::PathBuf;
use std::sync::Mutex;

#[derive(Clone, Copy, PartialEq, Eq, Debug)]
pub enum Tier {
    Quick,
    Thorough,
}

#[derive(Debug, Clone)]
pub struct Fail {
    /// machine-matched signature of the failure class (used by the known-findings file)
    pub key: String,
    pub what: String,
}

impl Fail {
    pub fn new(key: impl Into<String>, what: impl Into<String>) -> Self {
        Fail {
            key: key.into(),
            what: what.into(),
        }
    }
}

#[macro_export]
macro_rules! fail {
    ($key:expr, $($arg:tt)*) => {
        return Err($crate::Fail::new($key, format!($($arg)*)))
    };
}

#[macro_export]
macro_rules! ensure {
    ($cond:expr, $key:expr, $($arg:tt)*) => {
        if !($cond) {
            return Err($crate::Fail::new($key, format!($($arg)*)));
        }
    };
}

/// What a passing case tells the statistics.
#[derive(Default, Debug, Clone)]
pub struct Info {
    pub nontrivial: bool,
    pub classes: Vec<String>,
}

impl Info {
    pub fn new(nontrivial: bool) -> Self {
        Info {
            nontrivial,
            classes: Vec::new(),
        }
    }
    pub fn class(mut self, c: impl Into<String>) -> Self {
        self.classes.push(c.into());
        self
    }
    pub fn class_if(mut self, cond: bool, c: &str) -> Self {
        if cond {
            self.classes.push(c.to_string());
        }
        self
    }
}

pub type CaseResult = Result<Info, Fail>;

pub struct Args {
    pub prop: String,
    pub tier: Tier,
    pub seed: u64,
    pub out: Option<PathBuf>,
    pub known: HashSet<String>,
    pub replay: Option<PathBuf>,
    /// when set, every case is written here before it is executed (crash forensics)
    pub journal: Option<PathBuf>,
    pub extra: Vec<String>,
}

impl Args {
    /// `<prop> [--tier quick|thorough] [--seed N] [--out file] [--known k1,k2] [--replay file] [extra..]`
    pub fn parse() -> Args {
        let mut it = std::env::args().skip(1);
        let prop = it.next().expect("usage: <bin> <property> [options]");
        let mut a = Args {
            prop,
            tier: Tier::Quick,
            seed: std::env::var("VERIF_SEED")
                .ok()
                .and_then(|s| s.parse().ok())
                .unwrap_or(0),
            out: None,
            known: HashSet::new(),
            replay: None,
            journal: None,
            extra: Vec::new(),
        };
        while let Some(x) = it.next() {
            match x.as_str() {
                "--tier" => {
                    a.tier = match it.next().as_deref() {
                        Some("thorough") => Tier::Thorough,
                        _ => Tier::Quick,
                    }
                }
                "--seed" => a.seed = it.next().unwrap().parse().unwrap(),
                "--out" => a.out = Some(it.next().unwrap().into()),
                "--known" => {
                    for k in it.next().unwrap().split(',') {
                        if !k.is_empty() {
                            a.known.insert(k.to_string());
                        }
                    }
                }
                "--replay" => a.replay = Some(it.next().unwrap().into()),
                "--journal" => a.journal = Some(it.next().unwrap().into()),
                _ => a.extra.push(x),
            }
        }
        a
    }
}

#[derive(Default)]
struct Inner {
    evaluations: u64,
    bulk_nontrivial: u64,
    nontrivial: HashSet<u64>,
    classes: BTreeMap<String, u64>,
    samples_first: Vec<Value>,
    samples_more: Vec<Value>,
    known_seen: BTreeMap<String, u64>,
    violations: Vec<Value>,
    subs: BTreeSet<String>,
    frozen: bool,
    notes: Vec<String>,
}

pub struct Ctx {
    pub args: Args,
    inner: Mutex<Inner>,
    replay_case: Option<(String, Value)>,
    journal: Option<Mutex<std::fs::File>>,
    start: std::time::Instant,
}

fn clip(v: Value) -> Value {
    let s = v.to_string();
    if s.len() > 3000 {
        let mut cut = 3000;
        while !s.is_char_boundary(cut) {
            cut -= 1;
        }
        Value::String(format!("{}… ({} bytes)", &s[..cut], s.len()))
    } else {
        v
    }
}

impl Ctx {
    pub fn new(args: Args) -> Ctx {
        let replay_case = args.replay.as_ref().map(|p| {
            let txt = std::fs::read_to_string(p).expect("replay file unreadable");
            let v: Value = serde_json::from_str(&txt).expect("replay file is not JSON");
            (
                v["sub"].as_str().unwrap_or("").to_string(),
                v["case"].clone(),
            )
        });
        let journal = args
            .journal
            .as_ref()
            .map(|p| Mutex::new(std::fs::File::create(p).expect("cannot create journal")));
        Ctx {
            journal,
            args,
            inner: Mutex::new(Inner::default()),
            replay_case,
            start: std::time::Instant::now(),
        }
    }

    pub fn tier(&self) -> Tier {
        self.args.tier
    }

    pub fn is_replay(&self) -> bool {
        self.replay_case.is_some()
    }

    /// quick-or-thorough constant
    pub fn n(&self, quick: u32, thorough: u32) -> u32 {
        match self.args.tier {
            Tier::Quick => quick,
            Tier::Thorough => thorough,
        }
    }

    /// True if `key` is listed as a known (unrepaired) finding: the caller then tolerates exactly
    /// this deviation. Every tolerated observation is counted.
    pub fn known(&self, key: &str) -> bool {
        if self.args.known.contains(key) {
            let _g = crate::alloc::Exempt::new();
            let mut i = self.inner.lock().unwrap();
            if !i.frozen {
                *i.known_seen.entry(key.to_string()).or_insert(0) += 1;
            }
            true
        } else {
            false
        }
    }

    pub fn note(&self, s: impl Into<String>) {
        let _g = crate::alloc::Exempt::new();
        self.inner.lock().unwrap().notes.push(s.into());
    }

    fn journal<T: Serialize>(&self, sub: &str, case: &T) {
        if let Some(j) = &self.journal {
            use std::io::{Seek, Write};
            let _g = crate::alloc::Exempt::new();
            let txt = serde_json::to_string(&json!({"property": self.args.prop, "sub": sub, "seed": self.args.seed, "case": case}))
                .unwrap_or_default();
            let mut f = j.lock().unwrap();
            let _ = f.seek(std::io::SeekFrom::Start(0));
            let _ = f.set_len(0);
            let _ = f.write_all(txt.as_bytes());
            let _ = f.flush();
        }
    }

    fn record_pass(&self, sub: &str, case_json: &dyn Fn() -> Value, digest: u64, info: Info) {
        let _g = crate::alloc::Exempt::new();
        let mut i = self.inner.lock().unwrap();
        if i.frozen {
            return;
        }
        i.evaluations += 1;
        *i.classes.entry(format!("{sub}:cases")).or_insert(0) += 1;
        for c in &info.classes {
            *i.classes.entry(format!("{sub}:{c}")).or_insert(0) += 1;
        }
        if info.nontrivial {
            let mut h = crate::Fnv::new();
            h.str(sub).u64(digest);
            let fresh = i.nontrivial.insert(h.get());
            if fresh {
                *i.classes.entry(format!("{sub}:nontrivial")).or_insert(0) += 1;
                let first_of_sub = i.subs.insert(sub.to_string());
                if first_of_sub && i.samples_first.len() < 12 {
                    i.samples_first
                        .push(json!({"sub": sub, "case": clip(case_json())}));
                } else if h.get() % 1009 == 0 && i.samples_more.len() < 4 {
                    i.samples_more
                        .push(json!({"sub": sub, "case": clip(case_json())}));
                }
            }
        }
    }

    /// Account for an exhaustive sweep whose cases are distinct by construction (enumerated, not
    /// sampled): `evals` cases were executed and passed, `nontrivial` of them satisfy the rule.
    pub fn bulk(&self, sub: &str, evals: u64, nontrivial: u64, classes: &[(&str, u64)], samples: Vec<Value>) {
        let _g = crate::alloc::Exempt::new();
        let mut i = self.inner.lock().unwrap();
        if i.frozen {
            return;
        }
        i.evaluations += evals;
        i.bulk_nontrivial += nontrivial;
        *i.classes.entry(format!("{sub}:cases")).or_insert(0) += evals;
        *i.classes.entry(format!("{sub}:nontrivial")).or_insert(0) += nontrivial;
        for (c, n) in classes {
            *i.classes.entry(format!("{sub}:{c}")).or_insert(0) += n;
        }
        for smp in samples.into_iter().take(3) {
            if i.samples_first.len() < 12 {
                i.samples_first.push(json!({"sub": sub, "case": clip(smp)}));
            }
        }
    }

    /// Report a violation found outside `run`/`eval` (exhaustive sweeps).
    pub fn violation<T: Serialize>(&self, sub: &str, case: &T, f: Fail) {
        self.record_violation(sub, serde_json::to_value(case).unwrap_or(Value::Null), &f);
        self.inner.lock().unwrap().frozen = true;
    }

    pub fn failed(&self) -> bool {
        self.inner.lock().unwrap().frozen
    }

    /// The replay case if it belongs to sub-check `sub`.
    pub fn replay_for<T: DeserializeOwned>(&self, sub: &str) -> Option<T> {
        match &self.replay_case {
            Some((s, c)) if s == sub => serde_json::from_value(c.clone()).ok(),
            _ => None,
        }
    }

    fn record_violation(&self, sub: &str, case: Value, f: &Fail) {
        let _g = crate::alloc::Exempt::new();
        let mut i = self.inner.lock().unwrap();
        i.violations
            .push(json!({"sub": sub, "key": f.key, "what": f.what, "case": case}));
    }

    /// Run one explicit case (used by exhaustive enumerations and by replay).
    pub fn eval<T: Serialize>(&self, sub: &str, case: &T, f: impl FnOnce(&T) -> CaseResult) -> bool {
        self.journal(sub, case);
        let r = guard(|| f(case));
        match r {
            Ok(info) => {
                let js = || serde_json::to_value(case).unwrap_or(Value::Null);
                let digest = crate::Fnv::new()
                    .str(&serde_json::to_string(case).unwrap_or_default())
                    .get();
                self.record_pass(sub, &js, digest, info);
                true
            }
            Err(fl) => {
                let first = {
                    let i = self.inner.lock().unwrap();
                    !i.violations
                        .iter()
                        .any(|v| v["sub"] == sub && v["key"] == fl.key.as_str())
                };
                if first {
                    self.record_violation(sub, serde_json::to_value(case).unwrap_or(Value::Null), &fl);
                }
                self.inner.lock().unwrap().frozen = true;
                false
            }
        }
    }

    /// As [`eval`], for exhaustive matrices where every failing cell is wanted: a failure is
    /// recorded (once per key) but does not stop the enumeration or the counting.
    pub fn eval_nofreeze<T: Serialize>(&self, sub: &str, case: &T, f: impl FnOnce(&T) -> CaseResult) -> bool {
        self.journal(sub, case);
        match guard(|| f(case)) {
            Ok(info) => {
                let js = || serde_json::to_value(case).unwrap_or(Value::Null);
                let digest = crate::Fnv::new().str(&serde_json::to_string(case).unwrap_or_default()).get();
                self.record_pass(sub, &js, digest, info);
                true
            }
            Err(fl) => {
                let first = !self.inner.lock().unwrap().violations.iter().any(|v| v["sub"] == sub && v["key"] == fl.key.as_str());
                if first {
                    self.record_violation(sub, serde_json::to_value(case).unwrap_or(Value::Null), &fl);
                }
                false
            }
        }
    }

    /// Drive `f` with `cases` values of `strat` (or with the replay case if one was given for
    /// this sub-check). On failure the shrunk value is recorded as a violation.
    pub fn run<S>(&self, sub: &str, cases: u32, strat: S, f: impl Fn(&S::Value) -> CaseResult)
    where
        S: Strategy,
        S::Value: Serialize + DeserializeOwned + std::fmt::Debug,
    {
        if let Some((rsub, rcase)) = &self.replay_case {
            if rsub != sub {
                return;
            }
            let v: S::Value = match serde_json::from_value(rcase.clone()) {
                Ok(v) => v,
                Err(e) => {
                    eprintln!("replay case does not decode for sub-check {sub}: {e}");
                    std::process::exit(2);
                }
            };
            self.eval(sub, &v, |v| f(v));
            return;
        }
        if self.inner.lock().unwrap().frozen {
            // an earlier sub-check of this run already produced a violation; stop here so that
            // it is reported even if later sub-checks would crash the process
            return;
        }
        let seed = crate::mix_seed(self.args.seed, &format!("{}/{}", self.args.prop, sub));
        let mut cfg = Config::default();
        cfg.cases = cases;
        cfg.failure_persistence = None;
        cfg.rng_seed = RngSeed::Fixed(seed);
        cfg.rng_algorithm = RngAlgorithm::ChaCha;
        cfg.max_shrink_iters = 4096;
        cfg.max_global_rejects = 0;
        cfg.verbose = 0;
        let mut runner = TestRunner::new(cfg);
        let failing = Mutex::new(false);
        let last_fail: Mutex<Option<Fail>> = Mutex::new(None);
        let res = runner.run(&strat, |v| {
            self.journal(sub, &v);
            let r = guard(|| f(&v));
            match r {
                Ok(info) => {
                    if !*failing.lock().unwrap() {
                        let js = || serde_json::to_value(&v).unwrap_or(Value::Null);
                        let digest = crate::Fnv::new()
                            .str(&serde_json::to_string(&v).unwrap_or_default())
                            .get();
                        self.record_pass(sub, &js, digest, info);
                    }
                    Ok(())
                }
                Err(fl) => {
                    let _g = crate::alloc::Exempt::new();
                    *failing.lock().unwrap() = true;
                    let msg = format!("{}|{}", fl.key, fl.what);
                    *last_fail.lock().unwrap() = Some(fl);
                    Err(TestCaseError::fail(msg))
                }
            }
        });
        match res {
            Ok(()) => {}
            Err(TestError::Fail(reason, value)) => {
                let msg = reason.message().to_string();
                let (key, what) = match msg.split_once('|') {
                    Some((k, w)) => (k.to_string(), w.to_string()),
                    None => ("unclassified".to_string(), msg.clone()),
                };
                self.record_violation(
                    sub,
                    serde_json::to_value(&value).unwrap_or(Value::Null),
                    &Fail { key, what },
                );
                self.inner.lock().unwrap().frozen = true;
            }
            Err(TestError::Abort(reason)) => {
                eprintln!("proptest aborted in {sub}: {reason}");
                std::process::exit(2);
            }
        }
        // un-freeze counting for following sub-checks is deliberately not done: counts stop at
        // the first failure of the run.
    }

    /// Write the result file and return the process exit code (0 = nothing violated).
    pub fn finish(&self, rule: &str, assumptions: &[&str], exhaustive: bool) -> i32 {
        let i = self.inner.lock().unwrap();
        let mut samples = i.samples_first.clone();
        samples.extend(i.samples_more.iter().cloned());
        let out = json!({
            "property": self.args.prop,
            "seed": self.args.seed,
            "tier": if self.args.tier == Tier::Quick { "quick" } else { "thorough" },
            "evaluations": i.evaluations,
            "distinct_nontrivial": i.nontrivial.len() as u64 + i.bulk_nontrivial,
            "rule": rule,
            "samples": samples,
            "classes": i.classes,
            "known_seen": i.known_seen,
            "violations": i.violations,
            "exhaustive": exhaustive,
            "assumptions": assumptions,
            "notes": i.notes,
            "replay": self.replay_case.is_some(),
            "wall_s": self.start.elapsed().as_secs_f64(),
        });
        let txt = serde_json::to_string_pretty(&out).unwrap();
        match &self.args.out {
            Some(p) => std::fs::write(p, txt).expect("cannot write result file"),
            None => println!("{txt}"),
        }
        if i.violations.is_empty() {
            0
        } else {
            1
        }
    }
}

/// Run `f`, turning a panic into a `Fail` with key `panic`.
pub fn guard(f: impl FnOnce() -> CaseResult) -> CaseResult {
    match std::panic::catch_unwind(std::panic::AssertUnwindSafe(f)) {
        Ok(r) => r,
        Err(p) => {
            let _g = crate::alloc::Exempt::new();
            let msg = if let Some(s) = p.downcast_ref::<&str>() {
                s.to_string()
            } else if let Some(s) = p.downcast_ref::<String>() {
                s.clone()
            } else {
                "non-string panic".to_string()
            };
            Err(Fail::new("panic", format!("unexpected panic: {msg}")))
        }
    }
}

/// Silence the default panic printer (expected panics are part of several oracles).
pub fn quiet_panics() {
    // VERIF_LOUD_PANICS=1: keep the default hook (to read the message of a panic that aborts)
    if std::env::var_os("VERIF_LOUD_PANICS").is_some() {
        return;
    }
    std::panic::set_hook(Box::new(|_| {}));
}

/// Run `body` inside an allocation window with fresh tokens; returns the body's value and the
/// allocator report. Everything the body creates must be gone when it returns.
pub fn tracked<R>(body: impl FnOnce() -> R) -> (R, crate::alloc::Report) {
    crate::tok::reset();
    let ep = crate::alloc::begin();
    let r = std::panic::catch_unwind(std::panic::AssertUnwindSafe(body));
    let rep = crate::alloc::end(ep);
    match r {
        Ok(r) => (r, rep),
        Err(p) => std::panic::resume_unwind(p),
    }
}

/// As [`tracked`], but a leak is only believed if it reproduces on an immediate second run
/// (one-time lazy initialisation inside std shows up once only).
pub fn tracked_confirmed<R>(body: impl Fn() -> R) -> (R, crate::alloc::Report) {
    let (r, rep) = tracked(&body);
    if rep.clean() {
        return (r, rep);
    }
    drop(r);
    tracked(&body)
}


/// Turn a fuzzer's byte string into a value of `strat`: proptest's pass-through RNG consumes the
/// bytes as its random stream, so coverage-guided mutation of the bytes explores the strategy.
pub fn value_from_bytes<S: Strategy>(strat: &S, data: &[u8]) -> Option<S::Value> {
    use proptest::strategy::ValueTree;
    use proptest::test_runner::TestRng;
    let mut cfg = Config::default();
    cfg.failure_persistence = None;
    // The pass-through RNG yields zeros once the bytes are used up, on which rand's rejection
    // sampling for non-power-of-two ranges never terminates: continue the stream with a
    // pseudo-random tail derived from the input, so that the stream is never exhausted.
    let mut buf = Vec::with_capacity(data.len() + (1 << 16));
    buf.extend_from_slice(data);
    let mut x = crate::Fnv::new().bytes(data).get() | 1;
    while buf.len() < data.len() + (1 << 16) {
        x = x.wrapping_add(0x9E3779B97F4A7C15);
        let mut z = x;
        z = (z ^ (z >> 30)).wrapping_mul(0xBF58476D1CE4E5B9);
        z = (z ^ (z >> 27)).wrapping_mul(0x94D049BB133111EB);
        buf.extend_from_slice(&(z ^ (z >> 31)).to_le_bytes());
    }
    let rng = TestRng::from_seed(RngAlgorithm::PassThrough, &buf);
    let mut runner = TestRunner::new_with_rng(cfg, rng);
    strat.new_tree(&mut runner).ok().map(|t| t.current())
}
