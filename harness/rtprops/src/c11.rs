//! C11 — CVec is observationally a Vec.
use cglue::vec::CVec;
use proptest::prelude::*;
use serde::{Deserialize, Serialize};
use std::cell::Cell;
use verifkit::tok::{self, HeapTok, ZTok};
use verifkit::{ensure, fail, tracked_confirmed, CaseResult, Ctx, Fail, Info};

#[derive(Debug, Clone, Serialize, Deserialize, PartialEq)]
pub enum Op {
    Push(u64),
    Pop,
    /// index choice: mapped monotonically onto 0..=len+1 (len+1 is out of range)
    Insert(u16, u64),
    /// index choice: mapped onto 0..=len (len is out of range)
    Remove(u16),
    InsertFar(u64),
    RemoveFar,
    Reserve(u16),
    /// clone; if the flag is set continue with the clone and drop the original
    Clone(bool),
    Write(u16, u64),
    ReadBack,
}

#[derive(Debug, Clone, Serialize, Deserialize)]
pub struct Case {
    pub elem: u8, // 0 = u8, 1 = u64, 2 = zero-sized droppable, 3 = heap-owning droppable
    pub init_len: u8,
    pub spare: u8,
    pub from_default: bool,
    pub tramp: bool,
    pub ops: Vec<Op>,
}

pub trait Elem: Clone + PartialEq + std::fmt::Debug {
    fn make(v: u64) -> Self;
    fn val(&self) -> u64;
    /// for value comparisons of what was made from v
    fn norm(v: u64) -> u64 {
        v
    }
}
impl Elem for u8 {
    fn make(v: u64) -> Self {
        v as u8
    }
    fn val(&self) -> u64 {
        *self as u64
    }
    fn norm(v: u64) -> u64 {
        v as u8 as u64
    }
}
impl Elem for u64 {
    fn make(v: u64) -> Self {
        v
    }
    fn val(&self) -> u64 {
        *self
    }
}
impl Elem for ZTok {
    fn make(_: u64) -> Self {
        ZTok::new()
    }
    fn val(&self) -> u64 {
        0
    }
    fn norm(_: u64) -> u64 {
        0
    }
}
impl Elem for HeapTok {
    fn make(v: u64) -> Self {
        HeapTok::new(v)
    }
    fn val(&self) -> u64 {
        HeapTok::val(self)
    }
}

#[repr(C)]
struct CVecView<T> {
    data: *mut T,
    len: usize,
    capacity: usize,
    drop_fn: Option<unsafe extern "C" fn(*mut T, usize, usize)>,
    reserve_fn: extern "C" fn(&mut CVec<T>, usize) -> usize,
}

fn view<T>(v: &mut CVec<T>) -> &mut CVecView<T> {
    assert_eq!(std::mem::size_of::<CVec<T>>(), std::mem::size_of::<CVecView<T>>());
    unsafe { &mut *(v as *mut CVec<T> as *mut CVecView<T>) }
}

thread_local! {
    static ORIG_RESERVE: Cell<usize> = const { Cell::new(0) };
    static ORIG_DROP: Cell<usize> = const { Cell::new(0) };
    static RES_CALLS: Cell<u32> = const { Cell::new(0) };
    static DROP_CALLS: Cell<u32> = const { Cell::new(0) };
    static DROP_ARGS: Cell<(usize, usize, usize)> = const { Cell::new((0, 0, 0)) };
}

extern "C" fn tramp_reserve<T>(v: &mut CVec<T>, size: usize) -> usize {
    RES_CALLS.with(|c| c.set(c.get() + 1));
    let f: extern "C" fn(&mut CVec<T>, usize) -> usize =
        unsafe { std::mem::transmute(ORIG_RESERVE.with(|c| c.get())) };
    f(v, size)
}

unsafe extern "C" fn tramp_drop<T>(data: *mut T, len: usize, cap: usize) {
    DROP_CALLS.with(|c| c.set(c.get() + 1));
    DROP_ARGS.with(|c| c.set((data as usize, len, cap)));
    let f: unsafe extern "C" fn(*mut T, usize, usize) =
        std::mem::transmute(ORIG_DROP.with(|c| c.get()));
    f(data, len, cap)
}

fn install<T>(v: &mut CVec<T>) {
    let w = view(v);
    ORIG_RESERVE.with(|c| c.set(w.reserve_fn as usize));
    ORIG_DROP.with(|c| c.set(w.drop_fn.map(|f| f as usize).unwrap_or(0)));
    w.reserve_fn = tramp_reserve::<T>;
    if w.drop_fn.is_some() {
        w.drop_fn = Some(tramp_drop::<T>);
    }
}

fn same<E: Elem>(c: &CVec<E>, m: &Vec<E>) -> Result<(), Fail> {
    ensure!(c.len() == m.len(), "len", "len {} vs model {}", c.len(), m.len());
    ensure!(c.is_empty() == m.is_empty(), "len", "is_empty disagrees");
    ensure!(
        c.capacity() >= c.len(),
        "capacity",
        "capacity {} < len {}",
        c.capacity(),
        c.len()
    );
    let s: &[E] = c;
    for (i, (a, b)) in s.iter().zip(m.iter()).enumerate() {
        ensure!(
            a.val() == b.val(),
            "contents",
            "element {} is {} but model has {} (len {})",
            i,
            a.val(),
            b.val(),
            m.len()
        );
    }
    Ok(())
}

fn catch<R>(f: impl FnOnce() -> R) -> Result<R, ()> {
    std::panic::catch_unwind(std::panic::AssertUnwindSafe(f)).map_err(|_| ())
}

struct Flags {
    realloc: bool,
    mid: bool,
    oob: bool,
}

fn drive<E: Elem>(case: &Case, fl: &mut Flags) -> Result<(), Fail> {
    let mut model: Vec<E> = if case.from_default {
        Vec::new()
    } else {
        let mut v = Vec::with_capacity(case.init_len as usize + case.spare as usize);
        for i in 0..case.init_len {
            v.push(E::make(1000 + i as u64));
        }
        v
    };
    let mut cv: CVec<E> = if case.from_default {
        CVec::default()
    } else {
        let mut v = Vec::with_capacity(case.init_len as usize + case.spare as usize);
        for i in 0..case.init_len {
            v.push(E::make(1000 + i as u64));
        }
        let (p, cap) = (v.as_ptr() as usize, v.capacity());
        let c = CVec::from(v);
        ensure!(
            c.as_ptr() as usize == p && c.capacity() == cap,
            "from-vec",
            "From<Vec> did not take over the buffer (ptr/capacity changed)"
        );
        c
    };
    if case.tramp {
        install(&mut cv);
        RES_CALLS.with(|c| c.set(0));
        DROP_CALLS.with(|c| c.set(0));
    }
    same(&cv, &model)?;
    for (step, op) in case.ops.iter().enumerate() {
        let (p0, c0, l0) = (cv.as_ptr() as usize, cv.capacity(), cv.len());
        let r0 = RES_CALLS.with(|c| c.get());
        let ctxs = |e: Fail| Fail::new(e.key, format!("step {step} {op:?}: {}", e.what));
        match op {
            Op::Push(v) => {
                cv.push(E::make(*v));
                model.push(E::make(*v));
            }
            Op::Pop => {
                let a = cv.pop();
                let b = model.pop();
                ensure!(
                    a.as_ref().map(|x| x.val()) == b.as_ref().map(|x| x.val()),
                    "pop",
                    "step {step}: pop returned {:?}, model {:?}",
                    a.as_ref().map(|x| x.val()),
                    b.as_ref().map(|x| x.val())
                );
            }
            Op::Insert(ch, v) => {
                let idx = verifkit::pick(*ch, l0 + 2);
                let ra = catch(|| cv.insert(idx, E::make(*v)));
                let rb = catch(|| model.insert(idx, E::make(*v)));
                ensure!(
                    ra.is_ok() == rb.is_ok(),
                    "insert-range",
                    "step {step}: insert({idx}) at len {l0}: panicked={} but Vec panicked={}",
                    ra.is_err(),
                    rb.is_err()
                );
                if ra.is_err() {
                    fl.oob = true;
                    ensure!(
                        cv.len() == l0 && cv.capacity() == c0 && cv.as_ptr() as usize == p0,
                        "oob-modified",
                        "step {step}: out-of-range insert modified the vector"
                    );
                } else if idx < l0 {
                    fl.mid = true;
                }
            }
            Op::InsertFar(v) => {
                let idx = l0 + 2 + (*v as usize % 1000);
                let ra = catch(|| cv.insert(idx, E::make(*v)));
                ensure!(ra.is_err(), "insert-range", "step {step}: insert({idx}) at len {l0} did not panic");
                fl.oob = true;
                ensure!(
                    cv.len() == l0 && cv.capacity() == c0 && cv.as_ptr() as usize == p0,
                    "oob-modified",
                    "step {step}: out-of-range insert modified the vector"
                );
            }
            Op::Remove(ch) => {
                let idx = verifkit::pick(*ch, l0 + 1);
                let ra = catch(|| cv.remove(idx));
                let rb = catch(|| model.remove(idx));
                ensure!(
                    ra.is_ok() == rb.is_ok(),
                    "remove-range",
                    "step {step}: remove({idx}) at len {l0}: panicked={} but Vec panicked={}",
                    ra.is_err(),
                    rb.is_err()
                );
                match (ra, rb) {
                    (Ok(a), Ok(b)) => {
                        ensure!(
                            a.val() == b.val(),
                            "remove",
                            "step {step}: remove({idx}) returned {} model {}",
                            a.val(),
                            b.val()
                        );
                        if idx + 1 < l0 {
                            fl.mid = true;
                        }
                    }
                    _ => {
                        fl.oob = true;
                        ensure!(
                            cv.len() == l0 && cv.capacity() == c0 && cv.as_ptr() as usize == p0,
                            "oob-modified",
                            "step {step}: out-of-range remove modified the vector"
                        );
                    }
                }
            }
            Op::RemoveFar => {
                let idx = l0 + 1 + step;
                let ra = catch(|| cv.remove(idx));
                ensure!(ra.is_err(), "remove-range", "step {step}: remove({idx}) at len {l0} did not panic");
                fl.oob = true;
                ensure!(
                    cv.len() == l0 && cv.capacity() == c0 && cv.as_ptr() as usize == p0,
                    "oob-modified",
                    "step {step}: out-of-range remove modified the vector"
                );
            }
            Op::Reserve(n) => {
                let n = *n as usize % 300;
                cv.reserve(n);
                model.reserve(n);
                ensure!(
                    cv.capacity() - cv.len() >= n || std::mem::size_of::<E>() == 0,
                    "reserve",
                    "step {step}: after reserve({n}) capacity {} len {}",
                    cv.capacity(),
                    cv.len()
                );
            }
            Op::Clone(swap) => {
                let c2 = cv.clone();
                let m2 = model.clone();
                same(&c2, &m2).map_err(ctxs)?;
                ensure!(
                    c2.len() == 0 || std::mem::size_of::<E>() == 0 || c2.as_ptr() != cv.as_ptr(),
                    "clone-alias",
                    "step {step}: clone shares the buffer"
                );
                if *swap {
                    let d0 = DROP_CALLS.with(|c| c.get());
                    let (p, l, c) = (cv.as_ptr() as usize, cv.len(), cv.capacity());
                    cv = c2; // drops the original
                    model = m2;
                    if case.tramp {
                        ensure!(
                            DROP_CALLS.with(|c| c.get()) == d0 + 1,
                            "drop-fn",
                            "step {step}: dropping did not call the stored drop function once"
                        );
                        ensure!(
                            DROP_ARGS.with(|c| c.get()) == (p, l, c),
                            "drop-fn",
                            "step {step}: stored drop function called with {:?}, vector had {:?}",
                            DROP_ARGS.with(|c| c.get()),
                            (p, l, c)
                        );
                        install(&mut cv);
                    }
                    same(&cv, &model).map_err(ctxs)?;
                    continue;
                }
            }
            Op::Write(ch, v) => {
                if l0 > 0 {
                    let idx = verifkit::pick(*ch, l0);
                    cv[idx] = E::make(*v);
                    model[idx] = E::make(*v);
                }
            }
            Op::ReadBack => {
                let s: &[E] = &cv;
                ensure!(s.as_ptr() == cv.as_ptr(), "deref", "Deref does not expose the buffer");
                let ms: &mut [E] = &mut cv;
                ensure!(ms.len() == l0, "deref", "DerefMut length");
            }
        }
        same(&cv, &model).map_err(ctxs)?;
        let moved = cv.as_ptr() as usize != p0 || cv.capacity() != c0;
        if moved {
            fl.realloc = true;
            if case.tramp {
                ensure!(
                    RES_CALLS.with(|c| c.get()) > r0,
                    "grow-not-via-reserve-fn",
                    "step {step} {op:?}: buffer moved/grew ({p0:#x},{c0}) -> ({:#x},{}) without a call to the stored reserve function",
                    cv.as_ptr() as usize,
                    cv.capacity()
                );
            }
        }
    }
    // final release through the stored drop function
    let d0 = DROP_CALLS.with(|c| c.get());
    let (p, l, c) = (cv.as_ptr() as usize, cv.len(), cv.capacity());
    drop(cv);
    if case.tramp {
        ensure!(
            DROP_CALLS.with(|c| c.get()) == d0 + 1,
            "drop-fn",
            "final drop did not call the stored drop function exactly once"
        );
        ensure!(
            DROP_ARGS.with(|c| c.get()) == (p, l, c),
            "drop-fn",
            "stored drop function called with {:?}, vector had {:?}",
            DROP_ARGS.with(|c| c.get()),
            (p, l, c)
        );
    }
    drop(model);
    Ok(())
}

pub fn check(case: &Case) -> CaseResult {
    let mut fl = Flags {
        realloc: false,
        mid: false,
        oob: false,
    };
    let flc = std::cell::RefCell::new(&mut fl);
    let (r, rep) = tracked_confirmed(|| {
        let mut g = flc.borrow_mut();
        let r = match case.elem {
            0 => drive::<u8>(case, &mut g),
            1 => drive::<u64>(case, &mut g),
            2 => drive::<ZTok>(case, &mut g),
            _ => drive::<HeapTok>(case, &mut g),
        };
        r
    });
    r?;
    // every element created was destroyed exactly once (cglue side and model side alike)
    let bad = tok::mismatches(|_| 1);
    ensure!(
        bad.is_empty(),
        "drop-count",
        "tokens with drop count != 1 (id, expected, seen): {:?}",
        &bad[..bad.len().min(5)]
    );
    let (zn, zd) = tok::zst_counts();
    ensure!(zn == zd, "drop-count", "zero-sized elements created {zn} dropped {zd}");
    if !rep.clean() {
        let key = if !rep.misuses.is_empty() { "alloc-misuse" } else { "leak" };
        fail!(key, "{}", rep.describe());
    }
    Ok(Info::new(fl.realloc && fl.mid)
        .class(format!("elem{}", case.elem))
        .class_if(fl.realloc, "realloc")
        .class_if(fl.mid, "mid-insert-remove")
        .class_if(fl.oob, "out-of-range")
        .class_if(case.tramp, "trampolines")
        .class_if(case.spare > 0 && !case.from_default, "spare-capacity"))
}

fn op_strategy() -> impl Strategy<Value = Op> {
    prop_oneof![
        6 => any::<u64>().prop_map(Op::Push),
        3 => Just(Op::Pop),
        6 => (any::<u16>(), any::<u64>()).prop_map(|(i, v)| Op::Insert(i, v)),
        5 => any::<u16>().prop_map(Op::Remove),
        1 => any::<u64>().prop_map(Op::InsertFar),
        1 => Just(Op::RemoveFar),
        2 => any::<u16>().prop_map(Op::Reserve),
        1 => any::<bool>().prop_map(Op::Clone),
        2 => (any::<u16>(), any::<u64>()).prop_map(|(i, v)| Op::Write(i, v)),
        1 => Just(Op::ReadBack),
    ]
}

pub fn case_strategy(max_ops: usize) -> impl Strategy<Value = Case> {
    (
        0u8..4,
        0u8..12,
        0u8..6,
        prop::bool::weighted(0.15),
        any::<bool>(),
        prop::collection::vec(op_strategy(), 0..max_ops),
    )
        .prop_map(|(elem, init_len, spare, from_default, tramp, ops)| Case {
            elem,
            init_len,
            spare,
            from_default,
            tramp,
            ops,
        })
}

/// Exhaustive enumeration of short histories over a small alphabet (element type u8 and heap token).
fn exhaustive(ctx: &Ctx, max_len: usize) {
    let alphabet = [
        Op::Push(7),
        Op::Pop,
        Op::Insert(0, 9),         // front
        Op::Insert(0x7000, 11),   // middle-ish
        Op::Insert(0xffff, 13),   // len+1 -> out of range
        Op::Remove(0),            // front
        Op::Remove(0x7000),       // middle-ish
        Op::Remove(0xffff),       // len -> out of range
        Op::Reserve(1),
        Op::Reserve(9),
        Op::Clone(true),
    ];
    let k = alphabet.len();
    for len in 0..=max_len {
        let total = k.pow(len as u32);
        for n in 0..total {
            let mut x = n;
            let mut ops = Vec::with_capacity(len);
            for _ in 0..len {
                ops.push(alphabet[x % k].clone());
                x /= k;
            }
            for (init_len, spare) in [(0u8, 0u8), (2, 0), (2, 1)] {
                let case = Case {
                    elem: if n % 2 == 0 { 0 } else { 3 },
                    init_len,
                    spare,
                    from_default: false,
                    tramp: true,
                    ops: ops.clone(),
                };
                if !ctx.eval("exhaustive-short", &case, check) {
                    return;
                }
            }
        }
    }
}

pub fn run(ctx: &Ctx) -> i32 {
    if ctx.is_replay() {
        ctx.run("random-long", 1, case_strategy(4), check);
        ctx.run("exhaustive-short", 1, case_strategy(4), check);
    } else {
        exhaustive(ctx, ctx.n(4, 6) as usize);
        ctx.run("random-long", ctx.n(40_000, 1_000_000), case_strategy(80), check);
        ctx.run("random-vlong", ctx.n(2_000, 50_000), case_strategy(400), check);
    }
    ctx.finish(
        "histories over {push,pop,insert,remove,reserve,clone,write,read} x element types {u8,u64,zero-sized droppable,heap-owning droppable} x initial Vec with exact/spare capacity or default; short histories (alphabet of 11 ops) enumerated exhaustively, long ones random. Non-trivial = at least one reallocation AND at least one insert/remove not at the end; distinct by digest of the whole case",
        &["a Vec<T> driven by the same history is the reference", "growth/release are observed by swapping counting trampolines into the repr(C) fields published for CVec"],
        false,
    )
}
