//! C03 (runtime half): the functions the library installs in `extern "C"` slots really have the
//! C ABI. On this target the Rust and C calling conventions coincide for these signatures, so the
//! only observable difference is what happens to a panic raised by user code running inside such a
//! function: an `extern "C"` function aborts the process at its boundary, a Rust-ABI function
//! smuggled into the slot (through a transmute) lets the panic unwind into the caller.
//!
//! Each probe runs in its own process (`rtprops --abi-probe <name>`): it must die with SIGABRT.
//! If the panic can be caught, the probe exits with code 42.
use cglue::prelude::v1::*;
use cglue::callback::OpaqueCallback;
use cglue::iter::CIterator;
use cglue::vec::CVec;

pub const PROBES: &[&str] = &["citer-next", "callback-closure", "cvec-drop", "cbox-drop", "cslicebox-drop", "carc-drop", "vtable-entry", "vtable-entry-consuming"];

struct PanicOnDrop(u8);
impl Drop for PanicOnDrop {
    fn drop(&mut self) {
        panic!("user destructor panics");
    }
}

#[cglue_trait]
pub trait Boom {
    fn boom(&self, x: u32) -> u32;
    fn boom_fin(self) -> u32;
}
struct B;
impl Boom for B {
    fn boom(&self, _x: u32) -> u32 {
        panic!("user method panics")
    }
    fn boom_fin(self) -> u32 {
        panic!("user method panics")
    }
}

/// never returns normally: aborts (expected), or exits 42 (the panic unwound through the slot),
/// or exits 3 (the probe itself is broken: no panic at all)
pub fn run(name: &str) -> ! {
    std::panic::set_hook(Box::new(|_| {}));
    let r = std::panic::catch_unwind(std::panic::AssertUnwindSafe(|| match name {
        "citer-next" => {
            let mut it = (0..3u32).map(|x| if x == 1 { panic!("user iterator panics") } else { x });
            let mut c = CIterator::new(&mut it);
            let _ = c.next();
            let _ = c.next();
        }
        "callback-closure" => {
            let mut f = |x: u32| -> bool { if x == 1 { panic!("user callback panics") } else { true } };
            let mut cb: OpaqueCallback<u32> = OpaqueCallback::from(&mut f);
            let _ = cb.call(0);
            let _ = cb.call(1);
        }
        "cvec-drop" => {
            let v: CVec<PanicOnDrop> = vec![PanicOnDrop(1)].into();
            drop(v);
        }
        "cbox-drop" => {
            let b = CBox::from(PanicOnDrop(1));
            drop(b);
        }
        "cslicebox-drop" => {
            let b = cglue::boxed::CSliceBox::from(vec![PanicOnDrop(1)].into_boxed_slice());
            drop(b);
        }
        "carc-drop" => {
            let a = CArc::from(PanicOnDrop(1));
            drop(a);
        }
        "vtable-entry" => {
            let o = trait_obj!(B as Boom);
            let _ = o.boom(1);
        }
        "vtable-entry-consuming" => {
            let o = trait_obj!(B as Boom);
            let _ = o.boom_fin();
        }
        _ => std::process::exit(2),
    }));
    std::process::exit(if r.is_err() { 42 } else { 3 })
}
