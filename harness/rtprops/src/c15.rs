//! C15 — callbacks and iterators deliver every item once, in order, until told to stop.
use cglue::callback::{Callbackable, FeedCallback, FromExtend, OpaqueCallback};
use cglue::iter::{AsCIterator, CIterator};
use proptest::prelude::*;
use serde::{Deserialize, Serialize};
use std::collections::{BTreeSet, VecDeque};
use verifkit::tok::{self, HeapTok};
use verifkit::{ensure, fail, tracked_confirmed, CaseResult, Ctx, Fail, Info};

#[derive(Debug, Clone, Serialize, Deserialize)]
pub struct CbCase {
    pub n: u8,
    /// the sink answers `false` at the k-th invocation (1-based), None = never
    pub stop_at: Option<u8>,
    /// 0 closure 1 Vec 2 from_extend(VecDeque) 3 from_extend(BTreeSet)
    pub sink: u8,
    /// 0 feed_into 1 feed_into_mut 2 Extend 3 Callbackable::call on the callback
    /// 4 Callbackable::call on &mut callback 5 feed_into_mut in two batches
    pub feeder: u8,
    pub dup_vals: bool,
    pub split: u8,
}

fn cb_body(c: &CbCase) -> Result<(), Fail> {
    let n = c.n as usize;
    let vals: Vec<u64> = (0..n as u64).map(|i| if c.dup_vals { 100 + i % 3 } else { 100 + i * 7 }).collect();
    let items: Vec<HeapTok> = vals.iter().map(|v| HeapTok::new(*v)).collect();
    let ids: Vec<u32> = items.iter().map(|t| t.id()).collect();
    let sink_kind = c.sink % 4;
    let stop_at = if sink_kind == 0 { c.stop_at.map(|k| k as usize).filter(|k| *k >= 1) } else { None };
    // model: offered = prefix up to and including the first `false`
    let offered = match stop_at {
        Some(k) if k <= n => k,
        _ => n,
    };

    let mut seen_closure: Vec<HeapTok> = Vec::new();
    let mut calls = 0usize;
    let mut closure = |t: HeapTok| {
        calls += 1;
        seen_closure.push(t);
        Some(calls) != stop_at
    };
    let mut sink_vec: Vec<HeapTok> = Vec::new();
    let mut sink_deque: VecDeque<HeapTok> = VecDeque::new();
    let mut sink_set: BTreeSet<HeapTok> = BTreeSet::new();

    let feeder = c.feeder % 6;
    let count: Option<usize>;
    let mut pulled = 0usize;
    let mut left_in_source = 0usize;
    let mut two_batches: Option<(usize, usize, usize)> = None;
    {
        let mut cb: OpaqueCallback<HeapTok> = match sink_kind {
            0 => OpaqueCallback::from(&mut closure),
            1 => OpaqueCallback::from(&mut sink_vec),
            2 => sink_deque.from_extend(),
            _ => sink_set.from_extend(),
        };
        count = match feeder {
            // the source is lent (`by_ref`) and watched: it must not be advanced beyond the item
            // whose delivery stopped the feed - an item pulled but never offered is lost
            0 => {
                let mut it = items.into_iter();
                let k = it.by_ref().inspect(|_| pulled += 1).feed_into(cb);
                left_in_source = it.count();
                Some(k)
            }
            1 => {
                let mut it = items.into_iter();
                let k = it.by_ref().inspect(|_| pulled += 1).feed_into_mut(&mut cb);
                left_in_source = it.count();
                Some(k)
            }
            2 => {
                let mut it = items.into_iter();
                cb.extend(it.by_ref().inspect(|_| pulled += 1));
                left_in_source = it.count();
                None
            }
            3 => {
                let mut k = 0;
                for it in items {
                    k += 1;
                    if !Callbackable::call(&mut cb, it) {
                        break;
                    }
                }
                Some(k)
            }
            4 => {
                let mut k = 0;
                let mut r = &mut cb;
                for it in items {
                    k += 1;
                    if !Callbackable::call(&mut r, it) {
                        break;
                    }
                }
                Some(k)
            }
            _ => {
                // two batches through the SAME callback object: a stop ends one feed, it does not
                // disable the callback - the next feed reaches the closure again
                let mut it = items.into_iter();
                let cut = if n == 0 { 0 } else { c.split as usize % (n + 1) };
                let first: Vec<HeapTok> = it.by_ref().take(cut).collect();
                let a = first.feed_into_mut(&mut cb);
                let rest: Vec<HeapTok> = it.collect();
                let b = rest.feed_into_mut(&mut cb);
                two_batches = Some((cut, a, b));
                None
            }
        };
    }
    if feeder <= 2 {
        ensure!(pulled == offered && left_in_source == n - offered, "source-overrun", "the feed took {pulled} items out of the source and left {left_in_source} in it, but only {offered} of {n} were offered to the callback (stop_at={stop_at:?})");
    }
    if let Some(k) = count {
        ensure!(k == offered, "count", "reported count {k}, but {offered} items were offered (n={n}, stop_at={stop_at:?})");
    }
    // which items the sink must have seen
    let mut expect_ids: Vec<u32> = ids[..offered].to_vec();
    if let Some((cut, a, b)) = two_batches {
        // the closure answers false exactly at its stop_at-th invocation
        let k = stop_at.unwrap_or(usize::MAX);
        let (ea, eb) = if k <= cut { (k, n - cut) } else { (cut, (k - cut).min(n - cut)) };
        ensure!(a == ea && b == eb, "count", "two feeds through one callback reported {a} and {b} items offered, expected {ea} and {eb} (n={n}, cut={cut}, stop_at={stop_at:?})");
        expect_ids = ids[..ea].iter().chain(ids[cut..cut + eb].iter()).copied().collect();
    }
    let seen_ids: Vec<u32> = match sink_kind {
        0 => seen_closure.iter().map(|t| t.id()).collect(),
        1 => sink_vec.iter().map(|t| t.id()).collect(),
        2 => sink_deque.iter().map(|t| t.id()).collect(),
        _ => Vec::new(),
    };
    if sink_kind != 3 {
        ensure!(seen_ids == expect_ids, "sequence", "sink saw items {:?}, expected {:?} of {:?}", seen_ids, expect_ids, ids);
    } else {
        // a set keeps one item per distinct value; which duplicate survives is BTreeSet's business:
        // compare with a BTreeSet fed directly
        let model: BTreeSet<u64> = vals.iter().copied().collect();
        let got: BTreeSet<u64> = sink_set.iter().map(|t| t.val()).collect();
        ensure!(got == model, "sequence", "collected set {:?} differs from the model {:?}", got, model);
        for t in &sink_set {
            ensure!(ids.contains(&t.id()), "sequence", "collected set holds an item that was never offered");
        }
    }
    // items held by sinks are alive, everything else has been dropped exactly once already
    let held: Vec<u32> = match sink_kind {
        0 => seen_ids.clone(),
        1 | 2 => seen_ids.clone(),
        _ => sink_set.iter().map(|t| t.id()).collect(),
    };
    for id in &ids {
        let want = if held.contains(id) { 0 } else { 1 };
        ensure!(tok::drops(*id) == want, "item-drop", "item {id}: dropped {} times right after feeding, expected {want}", tok::drops(*id));
    }
    if sink_kind == 0 {
        ensure!(calls == expect_ids.len(), "invocations", "closure invoked {calls} times, expected {}", expect_ids.len());
    }
    Ok(())
}

pub fn check_cb(c: &CbCase) -> CaseResult {
    let (r, rep) = tracked_confirmed(|| cb_body(c));
    r?;
    let bad = tok::mismatches(|_| 1);
    ensure!(bad.is_empty(), "item-drop", "items with drop count != 1 at the end (id, expected, seen): {:?}", &bad[..bad.len().min(4)]);
    if !rep.clean() {
        fail!(if rep.misuses.is_empty() { "leak" } else { "alloc-misuse" }, "{}", rep.describe());
    }
    let early = c.sink % 4 == 0 && matches!(c.stop_at, Some(k) if k >= 1 && (k as usize) < c.n as usize);
    Ok(Info::new(c.n > 0 && (early || c.sink % 4 != 0))
        .class(format!("sink{}", c.sink % 4))
        .class(format!("feeder{}", c.feeder % 6))
        .class_if(early, "early-stop")
        .class_if(c.n == 0, "empty"))
}

// ---------------------------------------------------------------------------------------------
// iterators

/// A source that follows a script: Some(v) yields an item, None yields `None` (and the script
/// goes on afterwards: an unfused iterator).
pub struct Scripted {
    script: Vec<Option<u64>>,
    pos: usize,
}
impl Iterator for Scripted {
    type Item = HeapTok;
    fn next(&mut self) -> Option<HeapTok> {
        let r = self.script.get(self.pos).copied().flatten();
        self.pos += 1;
        r.map(HeapTok::new)
    }
}

#[derive(Debug, Clone, Serialize, Deserialize)]
pub enum Seg {
    /// wrap the source (by one of three constructors) and call next() k times
    Wrapped(u8, u8),
    /// call next() on the source directly k times
    Direct(u8),
    /// wrap and drain through an adaptor: take(k).collect()
    Collect(u8),
    /// wrap and use one of the positional / adaptor methods of Iterator (which a wrapper may
    /// override): 0 nth(k) 1 skip(k).next() 2 step_by(k+1).take(3) 3 nth(k) twice
    Positional(u8, u8),
}

#[derive(Debug, Clone, Serialize, Deserialize)]
pub struct ItCase {
    pub script: Vec<Option<u64>>,
    pub vec_source: bool,
    pub segs: Vec<Seg>,
}

fn it_body(c: &ItCase) -> Result<(usize, bool), Fail> {
    // Two identical sources: one is used through the wrapper, the other is the model.
    let mut interleaved = false;
    let mut yielded = 0usize;
    macro_rules! drive {
        ($src:expr, $model:expr) => {{
            let src = &mut $src;
            let model = &mut $model;
            let mut last_direct = false;
            let mut was_wrapped = false;
            for (si, seg) in c.segs.iter().enumerate() {
                match seg {
                    Seg::Wrapped(ctor, k) => {
                        if last_direct && was_wrapped {
                            interleaved = true;
                        }
                        was_wrapped = true;
                        last_direct = false;
                        let mut w: CIterator<HeapTok> = match ctor % 3 {
                            0 => CIterator::new(src),
                            1 => CIterator::from(&mut *src),
                            _ => src.as_citer(),
                        };
                        for j in 0..*k {
                            let a = w.next();
                            let b = model.next();
                            ensure!(
                                a.as_ref().map(|t| t.val()) == b.as_ref().map(|t| t.val()),
                                "iter-item",
                                "segment {si} call {j}: wrapper yielded {:?}, the source yields {:?}",
                                a.as_ref().map(|t| t.val()),
                                b.as_ref().map(|t| t.val())
                            );
                            if a.is_some() {
                                yielded += 1;
                            }
                        }
                    }
                    Seg::Direct(k) => {
                        last_direct = true;
                        for j in 0..*k {
                            let a = src.next();
                            let b = model.next();
                            ensure!(
                                a.as_ref().map(|t| t.val()) == b.as_ref().map(|t| t.val()),
                                "iter-source-disturbed",
                                "segment {si} call {j}: after wrapper use the source yields {:?}, the model {:?}",
                                a.as_ref().map(|t| t.val()),
                                b.as_ref().map(|t| t.val())
                            );
                        }
                    }
                    Seg::Positional(which, k) => {
                        was_wrapped = true;
                        last_direct = false;
                        let k = *k as usize % 6;
                        let v = |t: Option<HeapTok>| t.map(|t| t.val());
                        let (a, b): (Vec<Option<u64>>, Vec<Option<u64>>) = match which % 4 {
                            0 => (vec![v(src.as_citer().nth(k))], vec![v(model.by_ref().nth(k))]),
                            1 => (vec![v(src.as_citer().skip(k).next())], vec![v(model.by_ref().skip(k).next())]),
                            2 => (src.as_citer().step_by(k + 1).take(3).map(|t| Some(t.val())).collect(), model.by_ref().step_by(k + 1).take(3).map(|t| Some(t.val())).collect()),
                            _ => {
                                let mut w = src.as_citer();
                                let a = vec![v(w.nth(k)), v(w.nth(k))];
                                let m = model.by_ref();
                                (a, vec![v(m.nth(k)), v(m.nth(k))])
                            }
                        };
                        ensure!(a == b, "iter-item", "segment {si}: positional use {} with k={k} gave {:?} through the wrapper, the source gives {:?}", which % 4, a, b);
                        yielded += a.iter().flatten().count();
                    }
                    Seg::Collect(k) => {
                        was_wrapped = true;
                        last_direct = false;
                        let a: Vec<u64> = src.as_citer().take(*k as usize).map(|t| t.val()).collect();
                        let b: Vec<u64> = model.by_ref().take(*k as usize).map(|t| t.val()).collect();
                        ensure!(a == b, "iter-item", "segment {si}: take({k}).collect() gave {:?}, the source gives {:?}", a, b);
                        yielded += a.len();
                    }
                }
            }
        }};
    }
    if c.vec_source {
        let vals: Vec<u64> = c.script.iter().flatten().copied().collect();
        let mut src = vals.iter().map(|v| HeapTok::new(*v)).collect::<Vec<_>>().into_iter();
        let mut model = vals.iter().map(|v| HeapTok::new(*v)).collect::<Vec<_>>().into_iter();
        drive!(src, model);
    } else {
        let mut src = Scripted { script: c.script.clone(), pos: 0 };
        let mut model = Scripted { script: c.script.clone(), pos: 0 };
        drive!(src, model);
    }
    Ok((yielded, interleaved))
}

pub fn check_it(c: &ItCase) -> CaseResult {
    let (r, rep) = tracked_confirmed(|| it_body(c));
    let (yielded, interleaved) = r?;
    let bad = tok::mismatches(|_| 1);
    ensure!(bad.is_empty(), "item-drop", "iterator items with drop count != 1 (id, expected, seen): {:?}", &bad[..bad.len().min(4)]);
    if !rep.clean() {
        fail!(if rep.misuses.is_empty() { "leak" } else { "alloc-misuse" }, "{}", rep.describe());
    }
    let has_gap = !c.vec_source && c.script.iter().any(|x| x.is_none());
    Ok(Info::new(yielded > 0 && (interleaved || has_gap || c.segs.len() > 1))
        .class_if(interleaved, "interleaved")
        .class_if(has_gap, "unfused-source")
        .class_if(c.script.iter().flatten().count() == 0, "empty-source"))
}

pub fn cb_strategy() -> impl Strategy<Value = CbCase> {
    (0u8..64)
        .prop_flat_map(|n| {
            (
                Just(n),
                prop::option::weighted(0.8, 1u8..=n + 1),
                prop_oneof![3 => Just(0u8), 1 => 1u8..4],
                0u8..6,
                any::<bool>(),
                any::<u8>(),
            )
        })
        .prop_map(|(n, stop_at, sink, feeder, dup_vals, split)| CbCase { n, stop_at, sink, feeder, dup_vals, split })
}

pub fn it_strategy() -> impl Strategy<Value = ItCase> {
    let seg = prop_oneof![
        4 => (0u8..3, 0u8..8).prop_map(|(c, k)| Seg::Wrapped(c, k)),
        2 => (0u8..4).prop_map(Seg::Direct),
        1 => (0u8..10).prop_map(Seg::Collect),
        2 => (0u8..4, 0u8..6).prop_map(|(w, k)| Seg::Positional(w, k)),
    ];
    (
        prop::collection::vec(prop::option::weighted(0.8, any::<u64>()), 0..24),
        any::<bool>(),
        prop::collection::vec(seg, 1..8),
    )
        .prop_map(|(script, vec_source, segs)| ItCase { script, vec_source, segs })
}

pub fn run(ctx: &Ctx) -> i32 {
    if ctx.is_replay() {
        ctx.run("callbacks", 1, cb_strategy(), check_cb);
        ctx.run("iterators", 1, it_strategy(), check_it);
    } else {
        // full product for small n: every stop position x sink x feeder
        'o: for n in 0..=ctx.n(6, 12) as u8 {
            for stop in 0..=n + 1 {
                for sink in 0..4u8 {
                    for feeder in 0..6u8 {
                        let c = CbCase { n, stop_at: if stop == 0 { None } else { Some(stop) }, sink, feeder, dup_vals: n % 2 == 1, split: stop };
                        if !ctx.eval("callbacks", &c, check_cb) {
                            break 'o;
                        }
                    }
                }
            }
        }
        ctx.run("callbacks", ctx.n(30_000, 600_000), cb_strategy(), check_cb);
        ctx.run("iterators", ctx.n(30_000, 600_000), it_strategy(), check_it);
    }
    ctx.finish(
        "callbacks: n in 0..64 droppable items x stop position (never / k-th invocation, including first, last, beyond) x sinks {closure, Vec, from_extend(VecDeque), from_extend(BTreeSet)} x feeders {feed_into, feed_into_mut, Extend, Callbackable on the callback / on &mut callback / on batches}; small n enumerated as a full product. Iterators: scripted sources (with None gaps = unfused) or Vec sources, segments of wrapper use (three constructors, take/collect adaptor) interleaved with direct use of the source, compared call by call with an identical model source. Every item token must be dropped exactly once. Non-trivial = non-empty with an early stop or a collecting sink; iterator: items yielded and (interleaving or gaps or several wrapper lifetimes)",
        &[],
        false,
    )
}
