//! C10 — CArc and CArcSome behave as Arc and Option<Arc>.
use cglue::arc::{CArc, CArcSome};
use cglue::trait_group::{c_void, Opaquable};
use proptest::prelude::*;
use serde::{Deserialize, Serialize};
use std::sync::{Arc, Weak};
use verifkit::tok::{self, HeapTok};
use verifkit::{ensure, fail, pick, tracked_confirmed, CaseResult, Ctx, Fail, Info};

/// Over-aligned on purpose: the reference-count header of the allocation is then not where a
/// clone/drop function instantiated for another payload type would look for it.
#[repr(align(64))]
pub struct Payload {
    tok: HeapTok,
    alloc: usize,
}

// Counting trampolines swapped into the published clone_fn / drop_fn fields of the first handle
// of an allocation; every derived handle copies them, so every clone and every release of a
// cglue handle must pass through them ("run the functions of the module that created it").
static ORIG_CLONE: std::sync::atomic::AtomicUsize = std::sync::atomic::AtomicUsize::new(0);
static ORIG_DROP: std::sync::atomic::AtomicUsize = std::sync::atomic::AtomicUsize::new(0);
static T_CLONES: std::sync::atomic::AtomicU64 = std::sync::atomic::AtomicU64::new(0);
static T_DROPS: std::sync::atomic::AtomicU64 = std::sync::atomic::AtomicU64::new(0);

unsafe extern "C" fn tramp_clone(p: usize) -> usize {
    T_CLONES.fetch_add(1, std::sync::atomic::Ordering::SeqCst);
    let f: unsafe extern "C" fn(usize) -> usize = std::mem::transmute(ORIG_CLONE.load(std::sync::atomic::Ordering::SeqCst));
    f(p)
}
unsafe extern "C" fn tramp_drop(p: usize) {
    T_DROPS.fetch_add(1, std::sync::atomic::Ordering::SeqCst);
    let f: unsafe extern "C" fn(usize) = std::mem::transmute(ORIG_DROP.load(std::sync::atomic::Ordering::SeqCst));
    f(p)
}

fn install<T>(t: &mut T) {
    assert_eq!(std::mem::size_of::<T>(), std::mem::size_of::<ArcView>());
    let v = unsafe { &mut *(t as *mut T as *mut ArcView) };
    if v.clone_fn != 0 && v.clone_fn != tramp_clone as usize {
        ORIG_CLONE.store(v.clone_fn, std::sync::atomic::Ordering::SeqCst);
        v.clone_fn = tramp_clone as usize;
    }
    if v.drop_fn != 0 && v.drop_fn != tramp_drop as usize {
        ORIG_DROP.store(v.drop_fn, std::sync::atomic::Ordering::SeqCst);
        v.drop_fn = tramp_drop as usize;
    }
}

impl Payload {
    fn new(alloc: usize) -> Self {
        Payload {
            tok: HeapTok::new(0xA110C000 + alloc as u64),
            alloc,
        }
    }
    fn check(&self, alloc: usize) -> bool {
        self.alloc == alloc && self.tok.val() == 0xA110C000 + alloc as u64
    }
}

/// The layout the library publishes for both arc types.
#[repr(C)]
#[derive(Clone, Copy, PartialEq, Eq, Debug)]
struct ArcView {
    instance: usize,
    clone_fn: usize,
    drop_fn: usize,
}

fn view<T>(t: &T) -> ArcView {
    assert_eq!(std::mem::size_of::<T>(), std::mem::size_of::<ArcView>());
    unsafe { *(t as *const T as *const ArcView) }
}

fn a_is_even(n_allocs: usize) -> bool {
    n_allocs % 3 != 0
}

pub enum H {
    C(CArc<Payload>),
    S(CArcSome<Payload>),
    OC(CArc<c_void>),
    OS(CArcSome<c_void>),
    A(Arc<Payload>),
}

impl H {
    fn view(&self) -> Option<ArcView> {
        match self {
            H::C(x) => Some(view(x)),
            H::S(x) => Some(view(x)),
            H::OC(x) => Some(view(x)),
            H::OS(x) => Some(view(x)),
            H::A(_) => None,
        }
    }
    fn kind(&self) -> &'static str {
        match self {
            H::C(_) => "CArc",
            H::S(_) => "CArcSome",
            H::OC(_) => "CArc<void>",
            H::OS(_) => "CArcSome<void>",
            H::A(_) => "Arc",
        }
    }
}

/// A pool slot: the handle and the allocation it refers to (None = empty CArc).
pub struct Slot {
    h: H,
    alloc: Option<usize>,
}

#[derive(Debug, Clone, Serialize, Deserialize, PartialEq)]
pub enum Op {
    /// 0 CArc::from(value) 1 CArcSome::from(value) 2 CArc::from(Arc) 3 CArcSome::from(Arc)
    /// 4 CArc::from(Some(Arc)) 5 CArc::from(None) 6 CArc::default()
    New(u8),
    Clone(u16),
    Take(u16),
    /// CArc -> Option<CArcSome> (via transpose or Into), CArcSome -> CArc
    Transpose(u16, bool),
    Opaque(u16),
    IntoArc(u16),
    Deref(u16),
    Drop(u16),
}

#[derive(Debug, Clone, Serialize, Deserialize)]
pub struct Case {
    pub ops: Vec<Op>,
    /// permutation seed for the final drop order
    pub drop_order: Vec<u16>,
}

struct World {
    slots: Vec<Slot>,
    weak: Vec<Weak<Payload>>,
    tok_ids: Vec<u32>,
    fns: Vec<(usize, usize)>, // (clone_fn, drop_fn) of the originating handle
    tramp: Vec<bool>,         // allocation has counting trampolines installed
    want_clones: u64,
    want_drops: u64,
    max_live: usize,
    conv: bool,
}

impl World {
    fn live(&self, a: usize) -> usize {
        self.slots.iter().filter(|s| s.alloc == Some(a)).count()
    }

    fn invariant(&self, when: &str) -> Result<(), Fail> {
        for a in 0..self.weak.len() {
            let live = self.live(a);
            let sc = self.weak[a].strong_count();
            ensure!(
                sc == live,
                "strong-count",
                "{when}: allocation {a} has strong count {sc} but {live} live handles"
            );
            let d = tok::drops(self.tok_ids[a]);
            ensure!(
                d == if live == 0 { 1 } else { 0 },
                "payload-drop",
                "{when}: allocation {a} has {live} live handles and its payload was dropped {d} times"
            );
        }
        let (tc, td) = (T_CLONES.load(std::sync::atomic::Ordering::SeqCst), T_DROPS.load(std::sync::atomic::Ordering::SeqCst));
        ensure!(
            tc == self.want_clones && td == self.want_drops,
            "stored-fn-bypassed",
            "{when}: the clone/drop functions stored in the handles were called {tc}/{td} times, but {}/{} clones/releases of handles carrying them were performed",
            self.want_clones,
            self.want_drops
        );
        for (i, s) in self.slots.iter().enumerate() {
            if let Some(v) = s.h.view() {
                match s.alloc {
                    None => ensure!(
                        v.instance == 0,
                        "empty-fields",
                        "{when}: slot {i} ({}) is empty but its fields are {v:?}",
                        s.h.kind()
                    ),
                    Some(a) => {
                        let (c, d) = self.fns[a];
                        ensure!(
                            v.clone_fn == c && v.drop_fn == d,
                            "fn-pointers",
                            "{when}: slot {i} ({}) of allocation {a} carries clone/drop functions ({:#x},{:#x}), the originating handle had ({c:#x},{d:#x})",
                            s.h.kind(),
                            v.clone_fn,
                            v.drop_fn
                        );
                        let target = self.weak[a].as_ptr() as usize;
                        ensure!(
                            v.instance == target,
                            "deref-address",
                            "{when}: slot {i} points to {:#x}, allocation {a} lives at {target:#x}",
                            v.instance
                        );
                    }
                }
            }
        }
        Ok(())
    }

    fn new_alloc(&mut self, arc: &Arc<Payload>) -> usize {
        self.weak.push(Arc::downgrade(arc));
        self.tok_ids.push(arc.tok.id());
        self.fns.push((0, 0));
        self.tramp.push(false);
        self.weak.len() - 1
    }

    /// a cglue handle (not a std Arc) of a trampolined allocation goes away
    fn note_drop(&mut self, s: &Slot) {
        if let (Some(a), true) = (s.alloc, !matches!(s.h, H::A(_))) {
            if self.tramp[a] {
                self.want_drops += 1;
            }
        }
    }

    fn apply(&mut self, op: &Op, step: usize) -> Result<(), Fail> {
        let n = self.slots.len();
        match op {
            Op::New(k) => {
                let a = self.weak.len();
                let slot = match k % 7 {
                    0 => {
                        let c = CArc::from(Payload::new(a));
                        // observer: a std Arc obtained through the public conversion path
                        let probe: CArcSome<Payload> = c.clone().transpose().ok_or_else(|| {
                            Fail::new("transpose", "clone of CArc::from(value) transposes to None")
                        })?;
                        let arc = unsafe { probe.into_arc() };
                        self.new_alloc(&arc);
                        Slot { h: H::C(c), alloc: Some(a) }
                    }
                    1 => {
                        let c = CArcSome::from(Payload::new(a));
                        let arc = unsafe { c.clone().into_arc() };
                        self.new_alloc(&arc);
                        Slot { h: H::S(c), alloc: Some(a) }
                    }
                    2 => {
                        let arc = Arc::new(Payload::new(a));
                        self.new_alloc(&arc);
                        Slot { h: H::C(CArc::from(arc)), alloc: Some(a) }
                    }
                    3 => {
                        let arc = Arc::new(Payload::new(a));
                        self.new_alloc(&arc);
                        Slot { h: H::S(CArcSome::from(arc)), alloc: Some(a) }
                    }
                    4 => {
                        let arc = Arc::new(Payload::new(a));
                        self.new_alloc(&arc);
                        Slot { h: H::C(CArc::from(Some(arc))), alloc: Some(a) }
                    }
                    5 => Slot { h: H::C(CArc::from(None::<Arc<Payload>>)), alloc: None },
                    _ => Slot { h: H::C(CArc::default()), alloc: None },
                };
                let mut slot = slot;
                if let (Some(a), true) = (slot.alloc, a_is_even(self.weak.len())) {
                    match &mut slot.h {
                        H::C(x) => install(x),
                        H::S(x) => install(x),
                        _ => {}
                    }
                    self.tramp[a] = true;
                }
                if let (Some(a), Some(v)) = (slot.alloc, slot.h.view()) {
                    self.fns[a] = (v.clone_fn, v.drop_fn);
                    ensure!(
                        v.clone_fn != 0 && v.drop_fn != 0,
                        "fn-pointers",
                        "step {step}: fresh handle without clone/drop functions"
                    );
                }
                self.slots.push(slot);
            }
            _ if n == 0 => {}
            Op::Clone(c) => {
                let i = pick(*c, n);
                let alloc = self.slots[i].alloc;
                if let (Some(a), true) = (alloc, !matches!(self.slots[i].h, H::A(_))) {
                    if self.tramp[a] {
                        self.want_clones += 1;
                    }
                }
                let h = match &self.slots[i].h {
                    H::C(x) => H::C(x.clone()),
                    H::S(x) => H::S(x.clone()),
                    H::OC(x) => H::OC(x.clone()),
                    H::OS(x) => H::OS(x.clone()),
                    H::A(x) => H::A(x.clone()),
                };
                self.slots.push(Slot { h, alloc });
            }
            Op::Take(c) => {
                let i = pick(*c, n);
                let alloc = self.slots[i].alloc;
                let taken = match &mut self.slots[i].h {
                    H::C(x) => Some(H::C(x.take())),
                    H::OC(x) => Some(H::OC(x.take())),
                    _ => None,
                };
                if let Some(t) = taken {
                    self.conv = true;
                    self.slots[i].alloc = None;
                    self.slots.push(Slot { h: t, alloc });
                }
            }
            Op::Transpose(c, via_into) => {
                let i = pick(*c, n);
                let Slot { h, alloc } = self.slots.remove(i);
                self.conv = true;
                match h {
                    H::C(x) => {
                        let o: Option<CArcSome<Payload>> = if *via_into { x.into() } else { x.transpose() };
                        ensure!(
                            o.is_some() == alloc.is_some(),
                            "transpose",
                            "step {step}: CArc -> Option<CArcSome> gave is_some={} for a handle that was {}",
                            o.is_some(),
                            if alloc.is_some() { "non-empty" } else { "empty" }
                        );
                        if let Some(s) = o {
                            self.slots.insert(i, Slot { h: H::S(s), alloc });
                        }
                    }
                    H::OC(x) => {
                        let o: Option<CArcSome<c_void>> = if *via_into { x.into() } else { x.transpose() };
                        ensure!(o.is_some() == alloc.is_some(), "transpose", "step {step}: opaque CArc -> Option gave the wrong variant");
                        if let Some(s) = o {
                            self.slots.insert(i, Slot { h: H::OS(s), alloc });
                        }
                    }
                    H::S(x) => {
                        let c = if *via_into { CArc::from(Some(x)) } else { x.transpose() };
                        self.slots.insert(i, Slot { h: H::C(c), alloc });
                    }
                    H::OS(x) => {
                        let c = if *via_into { CArc::from(Some(x)) } else { x.transpose() };
                        self.slots.insert(i, Slot { h: H::OC(c), alloc });
                    }
                    h @ H::A(_) => self.slots.insert(i, Slot { h, alloc }),
                }
            }
            Op::Opaque(c) => {
                let i = pick(*c, n);
                let Slot { h, alloc } = self.slots.remove(i);
                let h = match h {
                    H::C(x) => {
                        self.conv = true;
                        H::OC(x.into_opaque())
                    }
                    H::S(x) => {
                        self.conv = true;
                        H::OS(x.into_opaque())
                    }
                    h => h,
                };
                self.slots.insert(i, Slot { h, alloc });
            }
            Op::IntoArc(c) => {
                let i = pick(*c, n);
                let Slot { h, alloc } = self.slots.remove(i);
                let h = match h {
                    H::S(x) => {
                        self.conv = true;
                        H::A(unsafe { x.into_arc() })
                    }
                    h => h,
                };
                self.slots.insert(i, Slot { h, alloc });
            }
            Op::Deref(c) => {
                let i = pick(*c, n);
                let s = &self.slots[i];
                match (&s.h, s.alloc) {
                    (H::C(x), Some(a)) => {
                        let r: &Option<&'static Payload> = x.as_ref();
                        ensure!(r.map(|p| p.check(a)) == Some(true), "deref-value", "step {step}: CArc::as_ref gives a wrong value");
                    }
                    (H::C(x), None) => {
                        ensure!(x.as_ref().is_none(), "deref-value", "step {step}: empty CArc::as_ref is Some");
                    }
                    (H::S(x), Some(a)) => {
                        ensure!(x.check(a) && AsRef::<Payload>::as_ref(x).check(a), "deref-value", "step {step}: CArcSome derefs to a wrong value");
                        ensure!(
                            &**x as *const Payload == self.weak[a].as_ptr(),
                            "deref-address",
                            "step {step}: CArcSome derefs to another address"
                        );
                    }
                    (H::OC(x), al) => {
                        ensure!(x.as_ref().is_some() == al.is_some(), "deref-value", "step {step}: opaque CArc emptiness");
                    }
                    (H::A(x), Some(a)) => {
                        ensure!(x.check(a), "deref-value", "step {step}: Arc from into_arc derefs to a wrong value");
                    }
                    _ => {}
                }
            }
            Op::Drop(c) => {
                let i = pick(*c, n);
                let s = self.slots.remove(i);
                self.note_drop(&s);
                drop(s);
            }
        }
        self.max_live = self.max_live.max(
            (0..self.weak.len()).map(|a| self.live(a)).max().unwrap_or(0),
        );
        self.invariant(&format!("after step {step} {op:?}"))
    }
}

pub fn check(case: &Case) -> CaseResult {
    let mut nontrivial = false;
    let mut classes: Vec<&'static str> = Vec::new();
    let ntr = std::cell::Cell::new((false, false, 0usize));
    let (r, rep) = tracked_confirmed(|| -> Result<(), Fail> {
        let mut w = World {
            slots: Vec::new(),
            weak: Vec::new(),
            tok_ids: Vec::new(),
            fns: Vec::new(),
            tramp: Vec::new(),
            want_clones: 0,
            want_drops: 0,
            max_live: 0,
            conv: false,
        };
        T_CLONES.store(0, std::sync::atomic::Ordering::SeqCst);
        T_DROPS.store(0, std::sync::atomic::Ordering::SeqCst);
        for (step, op) in case.ops.iter().enumerate() {
            w.apply(op, step)?;
        }
        // drop what is left in a generated order, checking after every drop
        let mut k = 0;
        while !w.slots.is_empty() {
            let c = case.drop_order.get(k).copied().unwrap_or(0);
            k += 1;
            let i = pick(c, w.slots.len());
            let s = w.slots.remove(i);
            w.note_drop(&s);
            drop(s);
            w.invariant(&format!("final drop {k}"))?;
        }
        ntr.set((w.conv, w.max_live >= 2, w.weak.len()));
        Ok(())
    });
    r?;
    if !rep.clean() {
        let key = if !rep.misuses.is_empty() { "alloc-misuse" } else { "leak" };
        fail!(key, "{}", rep.describe());
    }
    let (conv, two, allocs) = ntr.get();
    if conv && two {
        nontrivial = true;
    }
    if conv {
        classes.push("take/transpose/opaque");
    }
    if two {
        classes.push(">=2 live handles");
    }
    if allocs >= 2 {
        classes.push(">=2 allocations");
    }
    let mut info = Info::new(nontrivial);
    for c in classes {
        info = info.class(c);
    }
    Ok(info)
}

// ------------------------------------------------------------------------------------------
// threaded variant

#[derive(Debug, Clone, Serialize, Deserialize, PartialEq)]
pub enum TOp {
    Clone(u16),
    Drop(u16),
    Take(u16),
    Transpose(u16),
    Opaque(u16),
    Deref(u16),
}

#[derive(Debug, Clone, Serialize, Deserialize)]
pub struct TCase {
    pub threads: u8,
    pub allocs: u8,
    pub initial: u8,
    /// rounds of (thread choice, op); handles are re-dealt between rounds
    pub rounds: Vec<Vec<(u8, TOp)>>,
    pub deal: Vec<u8>,
}

enum TH {
    C(CArc<Payload>),
    S(CArcSome<Payload>),
    OC(CArc<c_void>),
    OS(CArcSome<c_void>),
}

struct TSlot {
    h: TH,
    alloc: Option<usize>,
}

fn thread_body(mut pool: Vec<TSlot>, ops: Vec<TOp>, addrs: &[usize]) -> Result<Vec<TSlot>, Fail> {
    for op in ops {
        let n = pool.len();
        if n == 0 {
            break;
        }
        match op {
            TOp::Clone(c) => {
                let i = pick(c, n);
                let alloc = pool[i].alloc;
                let h = match &pool[i].h {
                    TH::C(x) => TH::C(x.clone()),
                    TH::S(x) => TH::S(x.clone()),
                    TH::OC(x) => TH::OC(x.clone()),
                    TH::OS(x) => TH::OS(x.clone()),
                };
                pool.push(TSlot { h, alloc });
            }
            TOp::Drop(c) => {
                let i = pick(c, n);
                drop(pool.remove(i));
            }
            TOp::Take(c) => {
                let i = pick(c, n);
                let alloc = pool[i].alloc;
                let t = match &mut pool[i].h {
                    TH::C(x) => Some(TH::C(x.take())),
                    TH::OC(x) => Some(TH::OC(x.take())),
                    _ => None,
                };
                if let Some(t) = t {
                    pool[i].alloc = None;
                    pool.push(TSlot { h: t, alloc });
                }
            }
            TOp::Transpose(c) => {
                let i = pick(c, n);
                let TSlot { h, alloc } = pool.remove(i);
                match h {
                    TH::C(x) => {
                        if let Some(s) = x.transpose() {
                            pool.push(TSlot { h: TH::S(s), alloc });
                        } else if alloc.is_some() {
                            fail!("transpose", "non-empty CArc transposed to None on a worker thread");
                        }
                    }
                    TH::OC(x) => {
                        if let Some(s) = x.transpose() {
                            pool.push(TSlot { h: TH::OS(s), alloc });
                        } else if alloc.is_some() {
                            fail!("transpose", "non-empty opaque CArc transposed to None on a worker thread");
                        }
                    }
                    TH::S(x) => pool.push(TSlot { h: TH::C(x.transpose()), alloc }),
                    TH::OS(x) => pool.push(TSlot { h: TH::OC(x.transpose()), alloc }),
                }
            }
            TOp::Opaque(c) => {
                let i = pick(c, n);
                let TSlot { h, alloc } = pool.remove(i);
                let h = match h {
                    TH::C(x) => TH::OC(x.into_opaque()),
                    TH::S(x) => TH::OS(x.into_opaque()),
                    h => h,
                };
                pool.push(TSlot { h, alloc });
            }
            TOp::Deref(c) => {
                let i = pick(c, n);
                if let (TH::S(x), Some(a)) = (&pool[i].h, pool[i].alloc) {
                    ensure!(x.check(a), "deref-value", "CArcSome derefs to a wrong value on a worker thread");
                    ensure!(&**x as *const Payload as usize == addrs[a], "deref-address", "CArcSome derefs to another address on a worker thread");
                }
            }
        }
    }
    Ok(pool)
}

pub fn check_threaded(case: &TCase) -> CaseResult {
    let threads = (case.threads as usize).clamp(2, 8);
    let allocs = (case.allocs as usize).clamp(1, 3);
    let moved = std::cell::Cell::new(false);
    let (r, rep) = tracked_confirmed(|| -> Result<(), Fail> {
        let mut weak = Vec::new();
        let mut toks = Vec::new();
        let mut addrs = Vec::new();
        let mut all: Vec<TSlot> = Vec::new();
        for a in 0..allocs {
            let arc = Arc::new(Payload::new(a));
            weak.push(Arc::downgrade(&arc));
            toks.push(arc.tok.id());
            addrs.push(Arc::as_ptr(&arc) as usize);
            let first: CArcSome<Payload> = CArcSome::from(arc);
            for k in 0..(case.initial as usize % 4) {
                all.push(TSlot { h: if k % 2 == 0 { TH::S(first.clone()) } else { TH::C(first.clone().transpose()) }, alloc: Some(a) });
            }
            all.push(TSlot { h: TH::S(first), alloc: Some(a) });
        }
        let quiescent = |all: &Vec<TSlot>, when: &str| -> Result<(), Fail> {
            for a in 0..allocs {
                let live = all.iter().filter(|s| s.alloc == Some(a)).count();
                let sc = weak[a].strong_count();
                ensure!(sc == live, "strong-count", "{when}: allocation {a}: strong count {sc}, live handles {live}");
                let d = tok::drops(toks[a]);
                ensure!(d == if live == 0 { 1 } else { 0 }, "payload-drop", "{when}: allocation {a}: {live} live handles, payload dropped {d} times");
            }
            Ok(())
        };
        quiescent(&all, "start")?;
        for (ri, round) in case.rounds.iter().enumerate() {
            // deal the handles to the threads
            let mut pools: Vec<Vec<TSlot>> = (0..threads).map(|_| Vec::new()).collect();
            for (k, s) in all.drain(..).enumerate() {
                let t = case.deal.get(k + ri).copied().unwrap_or(k as u8) as usize % threads;
                pools[t].push(s);
            }
            let mut scripts: Vec<Vec<TOp>> = (0..threads).map(|_| Vec::new()).collect();
            for (t, op) in round {
                scripts[*t as usize % threads].push(op.clone());
            }
            if ri > 0 {
                moved.set(true);
            }
            let addrs = &addrs;
            let results: Vec<Result<Vec<TSlot>, Fail>> = std::thread::scope(|sc| {
                let hs: Vec<_> = pools
                    .into_iter()
                    .zip(scripts)
                    .map(|(p, s)| sc.spawn(move || thread_body(p, s, addrs)))
                    .collect();
                hs.into_iter()
                    .map(|h| h.join().unwrap_or_else(|_| Err(Fail::new("panic", "worker thread panicked"))))
                    .collect()
            });
            for r in results {
                all.extend(r?);
            }
            quiescent(&all, &format!("after round {ri}"))?;
        }
        // drop everything from several threads at once
        let mut pools: Vec<Vec<TSlot>> = (0..threads).map(|_| Vec::new()).collect();
        for (k, s) in all.drain(..).enumerate() {
            pools[k % threads].push(s);
        }
        std::thread::scope(|sc| {
            for p in pools {
                sc.spawn(move || drop(p));
            }
        });
        quiescent(&all, "end")?;
        Ok(())
    });
    r?;
    // Leaks are not judged here: the runtime releases per-thread resources after join returns,
    // which would make the verdict depend on timing. Payload destruction is covered by the
    // tokens; only allocator mis-use (double free, wrong layout) is taken from the report.
    if !rep.misuses.is_empty() {
        fail!("alloc-misuse", "{}", rep.describe());
    }
    let ops: usize = case.rounds.iter().map(|r| r.len()).sum();
    Ok(Info::new(ops >= 2).class_if(moved.get(), "handles re-dealt between threads"))
}

fn op_strategy() -> impl Strategy<Value = Op> {
    prop_oneof![
        3 => (0u8..7).prop_map(Op::New),
        5 => any::<u16>().prop_map(Op::Clone),
        2 => any::<u16>().prop_map(Op::Take),
        3 => (any::<u16>(), any::<bool>()).prop_map(|(i, b)| Op::Transpose(i, b)),
        2 => any::<u16>().prop_map(Op::Opaque),
        1 => any::<u16>().prop_map(Op::IntoArc),
        2 => any::<u16>().prop_map(Op::Deref),
        4 => any::<u16>().prop_map(Op::Drop),
    ]
}

pub fn case_strategy() -> impl Strategy<Value = Case> {
    (
        prop::collection::vec(op_strategy(), 0..40),
        prop::collection::vec(any::<u16>(), 0..24),
    )
        .prop_map(|(ops, drop_order)| Case { ops, drop_order })
}

fn top_strategy() -> impl Strategy<Value = TOp> {
    prop_oneof![
        5 => any::<u16>().prop_map(TOp::Clone),
        4 => any::<u16>().prop_map(TOp::Drop),
        2 => any::<u16>().prop_map(TOp::Take),
        2 => any::<u16>().prop_map(TOp::Transpose),
        1 => any::<u16>().prop_map(TOp::Opaque),
        1 => any::<u16>().prop_map(TOp::Deref),
    ]
}

pub fn tcase_strategy() -> impl Strategy<Value = TCase> {
    (
        2u8..9,
        1u8..4,
        0u8..4,
        prop::collection::vec(prop::collection::vec((0u8..8, top_strategy()), 0..40), 1..4),
        prop::collection::vec(any::<u8>(), 0..16),
    )
        .prop_map(|(threads, allocs, initial, rounds, deal)| TCase {
            threads,
            allocs,
            initial,
            rounds,
            deal,
        })
}

pub fn run(ctx: &Ctx) -> i32 {
    ctx.run("single-thread", ctx.n(30_000, 500_000), case_strategy(), check);
    ctx.run("threaded", ctx.n(1_500, 40_000), tcase_strategy(), check_threaded);
    ctx.finish(
        "histories over {from value/Arc/Option<Arc>/None/default, clone, take, transpose both ways (method and From/Into), into_opaque, into_arc, as_ref/deref, drop} on a pool of handles of kinds CArc, CArcSome, their opaque forms and std Arc, final drops in a generated order; threaded: 2-8 threads run generated sub-histories on dealt handles over 1-3 rounds with re-dealing at barriers. Oracle after every step (single thread) / at quiescence (threads): Weak::strong_count == live handles, payload dropped exactly when the last handle goes, same address/value, clone/drop function pointers equal to those of the originating handle, empty handles all-null. Non-trivial = at least one take/transpose/opaque conversion and two handles live at once (threaded: >= 2 ops)",
        &["std::sync::Weak::strong_count is the observer of the strong count", "thread interleavings are sampled by the OS scheduler, the oracle is only evaluated at quiescence"],
        false,
    )
}
