//! C06 — CBox / CSliceBox lifecycles with heap-owning, zero-sized and plain payloads.
use cglue::boxed::{CBox, CSliceBox};
use cglue::prelude::v1::*;
use cglue::trait_group::{c_void, IntoInner, NoContext, Opaquable};
use proptest::prelude::*;
use serde::{Deserialize, Serialize};
use verifkit::tok::{self, HeapTok, ZTok};
use verifkit::{ensure, fail, pick, tracked_confirmed, CaseResult, Fail, Info};

#[derive(Debug, Clone, Serialize, Deserialize, PartialEq)]
pub enum Op {
    /// payload kind: 0 heap token, 1 zero-sized droppable, 2 u64; ctor: 0 From<T>, 1 From<Box<T>>, 2 From<(T, NoContext)>
    NewBox(u8, u8),
    /// payload kind as above, length
    NewSliceBox(u8, u8),
    Opaque(u16),
    Touch(u16),
    Drop(u16),
    /// take the value out of a (non-opaque) CBox again
    IntoInner(u16),
    /// payload kind as above; container: 0 boxed, 1 boxed with arc context, 2 group
    NewObj(u8, u8),
    /// call the consuming method of an object
    Consume(u16),
}

/// an object whose implementor may be zero-sized, heap-owning or plain
#[cglue_trait]
pub trait Fin {
    fn peek(&self) -> u64;
    fn fin(self) -> u64;
}
#[cglue_trait]
pub trait FinX {
    fn finx(&self) -> u64;
}
cglue_trait_group!(FinGroup, Fin, { FinX });
impl Fin for HeapTok {
    fn peek(&self) -> u64 {
        self.val()
    }
    fn fin(self) -> u64 {
        self.val() ^ 1
    }
}
impl Fin for ZTok {
    fn peek(&self) -> u64 {
        77
    }
    fn fin(self) -> u64 {
        78
    }
}
impl Fin for u64 {
    fn peek(&self) -> u64 {
        *self
    }
    fn fin(self) -> u64 {
        self ^ 1
    }
}
impl FinX for HeapTok {
    fn finx(&self) -> u64 {
        1
    }
}
impl FinX for ZTok {
    fn finx(&self) -> u64 {
        2
    }
}
impl FinX for u64 {
    fn finx(&self) -> u64 {
        3
    }
}
cglue_impl_group!(HeapTok, FinGroup, { FinX });
cglue_impl_group!(ZTok, FinGroup, { FinX });
cglue_impl_group!(u64, FinGroup, {});

#[derive(Debug, Clone, Serialize, Deserialize)]
pub struct Case {
    pub ops: Vec<Op>,
    pub drop_order: Vec<u16>,
}

enum B {
    H(CBox<'static, HeapTok>, u64),
    Z(CBox<'static, ZTok>),
    U(CBox<'static, u64>, u64),
    SH(CSliceBox<'static, HeapTok>, Vec<u64>),
    SZ(CSliceBox<'static, ZTok>, usize),
    SU(CSliceBox<'static, u64>, Vec<u64>),
    O(CBox<'static, c_void>),
    SO(CSliceBox<'static, c_void>, usize),
    Obj(FinBox<'static>, u64),
    ObjCtx(FinArcBox<'static>, u64),
    Grp(FinGroupBox<'static>, u64),
}

fn body(c: &Case) -> Result<(bool, bool), Fail> {
    let mut pool: Vec<B> = Vec::new();
    let mut zst_nonempty = false;
    let mut opaque = false;
    let mut consumable = false;
    for (step, op) in c.ops.iter().enumerate() {
        let n = pool.len();
        match op {
            Op::NewBox(kind, ctor) => {
                let v = 1000 + step as u64;
                macro_rules! mk {
                    ($val:expr) => {
                        match ctor % 3 {
                            0 => CBox::from($val),
                            1 => CBox::from(Box::new($val)),
                            _ => CBox::from(($val, NoContext::default())),
                        }
                    };
                }
                pool.push(match kind % 3 {
                    0 => B::H(mk!(HeapTok::new(v)), v),
                    1 => B::Z(mk!(ZTok::new())),
                    _ => B::U(mk!(v), v),
                });
            }
            Op::NewSliceBox(kind, len) => {
                let len = *len as usize % 9;
                let vals: Vec<u64> = (0..len as u64).map(|i| 7 * i + step as u64).collect();
                pool.push(match kind % 3 {
                    0 => B::SH(CSliceBox::from(vals.iter().map(|v| HeapTok::new(*v)).collect::<Vec<_>>().into_boxed_slice()), vals),
                    1 => {
                        if len > 0 {
                            zst_nonempty = true;
                        }
                        B::SZ(CSliceBox::from((0..len).map(|_| ZTok::new()).collect::<Vec<_>>().into_boxed_slice()), len)
                    }
                    _ => B::SU(CSliceBox::from(vals.clone().into_boxed_slice()), vals),
                });
            }
            _ if n == 0 => {}
            Op::Opaque(i) => {
                let i = pick(*i, n);
                let b = pool.remove(i);
                opaque = true;
                pool.insert(
                    i,
                    match b {
                        B::H(x, _) => B::O(x.into_opaque()),
                        B::U(x, _) => B::O(x.into_opaque()),
                        B::Z(x) => B::O(x.into_opaque()),
                        B::SH(x, v) => B::SO(x.into_opaque(), v.len()),
                        B::SZ(x, l) => B::SO(x.into_opaque(), l),
                        B::SU(x, v) => B::SO(x.into_opaque(), v.len()),
                        b => b,
                    },
                );
            }
            Op::Touch(i) => {
                let i = pick(*i, n);
                match &mut pool[i] {
                    B::H(x, v) => ensure!(x.val() == *v, "C06:box-contents", "step {step}: CBox<HeapTok> derefs to {}", x.val()),
                    B::U(x, v) => {
                        ensure!(**x == *v, "C06:box-contents", "step {step}: CBox<u64> derefs to {}", **x);
                        **x += 1;
                        *v += 1;
                    }
                    B::SH(x, v) => {
                        ensure!(x.len() == v.len(), "C06:box-contents", "step {step}: CSliceBox length {}", x.len());
                        for (a, b) in x.iter().zip(v.iter()) {
                            ensure!(a.val() == *b, "C06:box-contents", "step {step}: CSliceBox element differs");
                        }
                    }
                    B::SZ(x, l) => ensure!(x.len() == *l, "C06:box-contents", "step {step}: CSliceBox<ZST> length {} != {l}", x.len()),
                    B::SU(x, v) => {
                        ensure!(&x[..] == &v[..], "C06:box-contents", "step {step}: CSliceBox<u64> contents differ");
                        if let Some(f) = x.first_mut() {
                            *f ^= 5;
                            v[0] ^= 5;
                        }
                    }
                    B::SO(x, l) => ensure!(x.len() == *l, "C06:box-contents", "step {step}: opaque CSliceBox length {} != {l}", x.len()),
                    _ => {}
                }
            }
            Op::Drop(i) => {
                let i = pick(*i, n);
                drop(pool.remove(i));
            }
            Op::IntoInner(i) => {
                let i = pick(*i, n);
                match pool.remove(i) {
                    B::H(x, v) => {
                        let t = unsafe { x.into_inner() };
                        ensure!(t.val() == v, "C06:box-contents", "step {step}: into_inner gave another value");
                    }
                    B::Z(x) => drop(unsafe { x.into_inner() }),
                    B::U(x, v) => ensure!(unsafe { x.into_inner() } == v, "C06:box-contents", "step {step}: into_inner gave another value"),
                    b => pool.insert(i, b),
                }
            }
            Op::NewObj(kind, cont) => {
                let v = 5000 + step as u64;
                consumable = true;
                macro_rules! mkobj {
                    ($val:expr, $peek:expr) => {
                        match cont % 3 {
                            0 => B::Obj(trait_obj!($val as Fin), $peek),
                            1 => B::ObjCtx(trait_obj!(($val, CArc::from(9u8).into_opaque()) as Fin), $peek),
                            _ => B::Grp(group_obj!($val as FinGroup), $peek),
                        }
                    };
                }
                pool.push(match kind % 3 {
                    0 => mkobj!(HeapTok::new(v), v),
                    1 => mkobj!(ZTok::new(), 77),
                    _ => mkobj!(v, v),
                });
            }
            Op::Consume(i) => {
                let i = pick(*i, n);
                match pool.remove(i) {
                    B::Obj(o, p) => {
                        ensure!(o.peek() == p, "C06:box-contents", "step {step}: object answers {} instead of {p}", o.peek());
                        let r = o.fin();
                        ensure!(r == p ^ 1 || (p == 77 && r == 78), "C06:box-contents", "step {step}: consuming call returned {r}");
                    }
                    B::ObjCtx(o, p) => {
                        let r = o.fin();
                        ensure!(r == p ^ 1 || (p == 77 && r == 78), "C06:box-contents", "step {step}: consuming call returned {r}");
                    }
                    B::Grp(g, p) => {
                        // half of the time through a cast / into of the group
                        if step % 2 == 0 {
                            let r = g.fin();
                            ensure!(r == p ^ 1 || (p == 77 && r == 78), "C06:box-contents", "step {step}: consuming call on the group returned {r}");
                        } else {
                            match into!(g impl FinX) {
                                Some(f) => {
                                    let r = f.fin();
                                    ensure!(r == p ^ 1 || (p == 77 && r == 78), "C06:box-contents", "step {step}: consuming call after into! returned {r}");
                                }
                                None => {} // u64 does not enable FinX: the failed conversion dropped the group
                            }
                        }
                    }
                    b => pool.insert(i, b),
                }
            }
        }
    }
    let mut k = 0;
    while !pool.is_empty() {
        let i = pick(c.drop_order.get(k).copied().unwrap_or(0), pool.len());
        k += 1;
        drop(pool.remove(i));
    }
    Ok((zst_nonempty, opaque || consumable))
}

pub fn check(c: &Case) -> CaseResult {
    let (r, rep) = tracked_confirmed(|| body(c));
    let (zst, opaque) = r?;
    let bad = tok::mismatches(|_| 1);
    ensure!(bad.is_empty(), "C06:drop-count", "boxed values whose destructor ran a number of times other than once (token, expected, seen): {:?}", &bad[..bad.len().min(5)]);
    let (zn, zd) = tok::zst_counts();
    ensure!(zn == zd, "C06:drop-count", "zero-sized boxed values: {zn} created, {zd} dropped");
    if !rep.clean() {
        fail!(if rep.misuses.is_empty() { "C06:leak" } else { "C06:alloc-misuse" }, "{}", rep.describe());
    }
    Ok(Info::new(opaque || zst).class_if(zst, "non-empty slice of zero-sized droppable").class_if(opaque, "into_opaque"))
}

pub fn strategy() -> impl Strategy<Value = Case> {
    let op = prop_oneof![
        3 => (0u8..3, 0u8..3).prop_map(|(k, c)| Op::NewBox(k, c)),
        3 => (0u8..3, 0u8..9).prop_map(|(k, l)| Op::NewSliceBox(k, l)),
        3 => any::<u16>().prop_map(Op::Opaque),
        2 => any::<u16>().prop_map(Op::Touch),
        3 => any::<u16>().prop_map(Op::Drop),
        2 => any::<u16>().prop_map(Op::IntoInner),
        3 => (0u8..3, 0u8..3).prop_map(|(k, c)| Op::NewObj(k, c)),
        3 => any::<u16>().prop_map(Op::Consume),
    ];
    (prop::collection::vec(op, 0..24), prop::collection::vec(any::<u16>(), 0..10)).prop_map(|(ops, drop_order)| Case { ops, drop_order })
}
