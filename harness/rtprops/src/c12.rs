//! C12 — slice views and C option/result/tuple types are lossless.
use cglue::option::COption;
use cglue::result::CResult;
use cglue::slice::{CSliceMut, CSliceRef};
use cglue::tuple::{CTup1, CTup2, CTup3, CTup4};
use proptest::prelude::*;
use serde::{Deserialize, Serialize};
use serde_json::json;
use std::convert::TryFrom;
use verifkit::tok::{self, HeapTok};
use verifkit::{ensure, fail, tracked_confirmed, CaseResult, Ctx, Fail, Info};

// ---------------------------------------------------------------------------------------------
// slices

#[derive(Clone, Copy, PartialEq, Eq, Debug)]
#[repr(C)]
struct Three(u8, u8, u8);

trait El: Copy + PartialEq + std::fmt::Debug {
    fn mk(v: u64) -> Self;
}
impl El for u8 {
    fn mk(v: u64) -> Self {
        v as u8
    }
}
impl El for u64 {
    fn mk(v: u64) -> Self {
        v.wrapping_mul(0x9E3779B97F4A7C15)
    }
}
impl El for () {
    fn mk(_: u64) -> Self {}
}
impl El for Three {
    fn mk(v: u64) -> Self {
        Three(v as u8, (v >> 8) as u8, (v >> 16) as u8)
    }
}

#[derive(Debug, Clone, Serialize, Deserialize)]
pub struct SliceCase {
    pub elem: u8,
    pub len: u16,
    pub offset: u8,
    pub seed: u64,
    pub writes: Vec<(u16, u64)>,
}

fn slice_case<T: El>(c: &SliceCase) -> Result<(), Fail> {
    let len = c.len as usize;
    let off = c.offset as usize % 7;
    let mut buf: Vec<T> = (0..(len + off + 3) as u64).map(|i| T::mk(i ^ c.seed)).collect();
    let reference: Vec<T> = buf.clone();
    {
        let s: &[T] = &buf[off..off + len];
        let (p, l) = (s.as_ptr(), s.len());
        for (name, r) in [("from", CSliceRef::from(s)), ("from_slice", CSliceRef::from_slice(s))] {
            ensure!(r.as_ptr() == p, "ref-address", "CSliceRef::{name}: as_ptr {:?} != {:?} (len {l})", r.as_ptr(), p);
            ensure!(r.len() == l && r.is_empty() == (l == 0), "ref-len", "CSliceRef::{name}: len {} != {l}", r.len());
            let back = r.as_slice();
            ensure!(back.as_ptr() == p && back.len() == l, "ref-roundtrip", "as_slice: ({:?},{}) != ({p:?},{l})", back.as_ptr(), back.len());
            ensure!(back == s, "ref-contents", "as_slice contents differ");
            let d: &[T] = &r;
            ensure!(d.as_ptr() == p && d.len() == l && d == s, "ref-roundtrip", "Deref differs");
            let copy = r; // Copy
            let i: &[T] = copy.into();
            ensure!(i.as_ptr() == p && i.len() == l && i == s, "ref-roundtrip", "Into<&[T]> differs");
        }
    }
    // mutable view
    {
        let s: &mut [T] = &mut buf[off..off + len];
        let (p, l) = (s.as_mut_ptr(), s.len());
        let mut m = CSliceMut::from(s);
        ensure!(m.as_ptr() == p as *const T && m.as_mut_ptr() == p, "mut-address", "CSliceMut ptr differs");
        ensure!(m.len() == l && m.is_empty() == (l == 0), "mut-len", "CSliceMut len {} != {l}", m.len());
        {
            let r = CSliceRef::from(&m);
            ensure!(r.as_ptr() == p as *const T && r.len() == l, "mut-to-ref", "CSliceRef::from(&CSliceMut) differs");
        }
        {
            let a = m.as_slice();
            ensure!(a.as_ptr() == p as *const T && a.len() == l && a == &reference[off..off + len], "mut-roundtrip", "CSliceMut::as_slice differs");
        }
        // writes through three different routes
        for (k, (ch, v)) in c.writes.iter().enumerate() {
            if l == 0 {
                break;
            }
            let idx = verifkit::pick(*ch, l);
            match k % 3 {
                0 => m[idx] = T::mk(*v),
                1 => {
                    let mut reb = CSliceMut::from(&mut m);
                    ensure!(reb.as_mut_ptr() == p && reb.len() == l, "mut-reborrow", "reborrowed CSliceMut differs");
                    reb[idx] = T::mk(*v);
                }
                _ => {
                    let sm: &mut [T] = &mut m;
                    sm[idx] = T::mk(*v);
                }
            }
        }
        let back: &mut [T] = m.into();
        ensure!(back.as_mut_ptr() == p && back.len() == l, "mut-roundtrip", "Into<&mut [T]> differs");
    }
    // the writes landed in the original buffer, nothing else changed
    let mut expect = reference.clone();
    if len > 0 {
        for (ch, v) in &c.writes {
            expect[off + verifkit::pick(*ch, len)] = T::mk(*v);
        }
    }
    ensure!(buf == expect, "mut-writes", "writes through CSliceMut did not land (only) in the original buffer");
    // as_slice_mut + Into<&[T]> on a fresh view
    {
        let s: &mut [T] = &mut buf[off..off + len];
        let p = s.as_mut_ptr();
        let mut m = CSliceMut::from(s);
        let a = m.as_slice_mut();
        ensure!(a.as_mut_ptr() == p && a.len() == len, "mut-roundtrip", "as_slice_mut differs");
        let s2: &mut [T] = &mut buf[off..off + len];
        let m2 = CSliceMut::from(s2);
        let i: &[T] = m2.into();
        ensure!(i.as_ptr() == p as *const T && i.len() == len, "mut-roundtrip", "Into<&[T]> of CSliceMut differs");
    }
    Ok(())
}

pub fn check_slice(c: &SliceCase) -> CaseResult {
    match c.elem % 4 {
        0 => slice_case::<u8>(c)?,
        1 => slice_case::<u64>(c)?,
        2 => slice_case::<()>(c)?,
        _ => slice_case::<Three>(c)?,
    }
    Ok(Info::new(c.len > 0)
        .class(format!("elem{}", c.elem % 4))
        .class_if(c.len == 0, "empty")
        .class_if(!c.writes.is_empty() && c.len > 0, "writes"))
}

// ---------------------------------------------------------------------------------------------
// UTF-8 decision

/// RFC 3629 validity, written from the table in the RFC (independent of core::str).
pub fn rfc3629_valid(b: &[u8]) -> bool {
    let mut i = 0;
    let n = b.len();
    while i < n {
        let c = b[i];
        let (need, lo, hi) = match c {
            0x00..=0x7F => (0, 0x80, 0xBF),
            0xC2..=0xDF => (1, 0x80, 0xBF),
            0xE0 => (2, 0xA0, 0xBF),
            0xE1..=0xEC => (2, 0x80, 0xBF),
            0xED => (2, 0x80, 0x9F),
            0xEE..=0xEF => (2, 0x80, 0xBF),
            0xF0 => (3, 0x90, 0xBF),
            0xF1..=0xF3 => (3, 0x80, 0xBF),
            0xF4 => (3, 0x80, 0x8F),
            _ => return false,
        };
        for k in 1..=need {
            let x = match b.get(i + k) {
                Some(x) => *x,
                None => return false,
            };
            let (l, h) = if k == 1 { (lo, hi) } else { (0x80, 0xBF) };
            if x < l || x > h {
                return false;
            }
        }
        i += need + 1;
    }
    true
}

fn utf8_one(b: &mut [u8], scratch: &mut Vec<u8>) -> Result<bool, Fail> {
    let valid = rfc3629_valid(b);
    let p = b.as_ptr();
    let l = b.len();
    let r = CSliceRef::from(&b[..]);
    match <&str>::try_from(r) {
        Ok(s) => {
            ensure!(valid, "utf8-accepts-invalid", "CSliceRef -> &str accepted invalid UTF-8 {:02x?}", b);
            ensure!(s.as_ptr() == p && s.len() == l, "utf8-roundtrip", "CSliceRef -> &str changed address/length for {:02x?}", b);
        }
        Err(_) => ensure!(!valid, "utf8-rejects-valid", "CSliceRef -> &str refused valid UTF-8 {:02x?}", b),
    }
    scratch.clear();
    scratch.extend_from_slice(b);
    {
        let m = CSliceMut::from(&mut b[..]);
        match <&str>::try_from(m) {
            Ok(s) => {
                ensure!(valid, "utf8-accepts-invalid", "CSliceMut -> &str accepted invalid UTF-8 {:02x?}", scratch);
                ensure!(s.as_ptr() == p && s.len() == l, "utf8-roundtrip", "CSliceMut -> &str changed address/length");
            }
            Err(_) => ensure!(!valid, "utf8-rejects-valid", "CSliceMut -> &str refused valid UTF-8 {:02x?}", scratch),
        }
    }
    {
        let m = CSliceMut::from(&mut b[..]);
        match <&mut str>::try_from(m) {
            Ok(s) => {
                ensure!(valid, "utf8-accepts-invalid", "CSliceMut -> &mut str accepted invalid UTF-8 {:02x?}", scratch);
                ensure!(s.as_ptr() == p && s.len() == l, "utf8-roundtrip", "CSliceMut -> &mut str changed address/length");
            }
            Err(_) => ensure!(!valid, "utf8-rejects-valid", "CSliceMut -> &mut str refused valid UTF-8 {:02x?}", scratch),
        }
    }
    ensure!(&b[..] == &scratch[..], "utf8-modified", "conversion attempts modified the bytes");
    if valid {
        // str -> slice -> str
        let s = unsafe { std::str::from_utf8_unchecked(b) };
        for r in [CSliceRef::from(s), CSliceRef::from_str(s)] {
            ensure!(r.as_ptr() == p && r.len() == l, "str-roundtrip", "CSliceRef::from(&str) changed address/length");
            let s2 = unsafe { r.into_str() };
            ensure!(s2.as_ptr() == p && s2.len() == l, "str-roundtrip", "into_str changed address/length");
        }
        let s = unsafe { std::str::from_utf8_unchecked_mut(b) };
        let m = CSliceMut::from(s);
        ensure!(m.as_ptr() == p && m.len() == l, "str-roundtrip", "CSliceMut::from(&mut str) changed address/length");
        let s3 = unsafe { m.into_mut_str() };
        ensure!(s3.as_ptr() == p && s3.len() == l, "str-roundtrip", "into_mut_str changed address/length");
        let s = unsafe { std::str::from_utf8_unchecked_mut(b) };
        let m = CSliceMut::from(s);
        let s4 = unsafe { m.into_str() };
        ensure!(s4.as_ptr() == p && s4.len() == l, "str-roundtrip", "CSliceMut::into_str changed address/length");
    }
    Ok(valid)
}

const BOUNDARY: [u8; 19] = [
    0x00, 0x7F, 0x80, 0x8F, 0x90, 0x9F, 0xA0, 0xBF, 0xC0, 0xC1, 0xC2, 0xDF, 0xE0, 0xED, 0xEF, 0xF0, 0xF4, 0xF5, 0xFF,
];

fn sweep(ctx: &Ctx, sub: &str, alphabet: &[u8], max_len: usize) {
    let k = alphabet.len() as u64;
    let mut scratch = Vec::new();
    let mut buf = vec![0u8; max_len];
    let (mut evals, mut invalid, mut valid_n) = (0u64, 0u64, 0u64);
    let mut samples = Vec::new();
    for len in 0..=max_len {
        let total = k.pow(len as u32);
        for n in 0..total {
            let mut x = n;
            for slot in buf.iter_mut().take(len) {
                *slot = alphabet[(x % k) as usize];
                x /= k;
            }
            // our own validator is cross-checked against std on the same input
            let mine = rfc3629_valid(&buf[..len]);
            if mine != std::str::from_utf8(&buf[..len]).is_ok() {
                ctx.note(format!("harness validator disagrees with std on {:02x?} — harness bug, sweep aborted", &buf[..len]));
                eprintln!("harness validator disagrees with std on {:02x?}", &buf[..len]);
                std::process::exit(2);
            }
            match utf8_one(&mut buf[..len], &mut scratch) {
                Ok(v) => {
                    evals += 1;
                    if v {
                        valid_n += 1
                    } else {
                        invalid += 1
                    }
                    if samples.len() < 3 && !v && n % 7 == 3 {
                        samples.push(json!({"bytes": buf[..len].to_vec(), "valid_utf8": v}));
                    }
                }
                Err(f) => {
                    ctx.violation(sub, &Utf8Case { bytes: buf[..len].to_vec() }, f);
                    return;
                }
            }
        }
    }
    ctx.bulk(sub, evals, invalid + valid_n.saturating_sub(1), &[("invalid", invalid), ("valid", valid_n)], samples);
}

#[derive(Debug, Clone, Serialize, Deserialize)]
pub struct Utf8Case {
    pub bytes: Vec<u8>,
}

pub fn check_utf8(c: &Utf8Case) -> CaseResult {
    let mut b = c.bytes.clone();
    let mut scratch = Vec::new();
    let mine = rfc3629_valid(&b);
    if mine != std::str::from_utf8(&b).is_ok() {
        eprintln!("harness validator disagrees with std on {:02x?}", b);
        std::process::exit(2);
    }
    let v = utf8_one(&mut b, &mut scratch)?;
    Ok(Info::new(!v || b.iter().any(|x| *x >= 0x80)).class(if v { "valid" } else { "invalid" }))
}

// ---------------------------------------------------------------------------------------------
// COption / CResult / CTup

#[derive(Debug, Clone, Serialize, Deserialize)]
pub struct EnumCase {
    /// 0 COption 1 CResult 2 tuples
    pub which: u8,
    pub variant: bool,
    pub vals: [u64; 4],
    pub route: u8,
}

fn enum_case(c: &EnumCase) -> Result<(), Fail> {
    match c.which % 3 {
        0 => {
            let src: Option<HeapTok> = if c.variant { Some(HeapTok::new(c.vals[0])) } else { None };
            let id = src.as_ref().map(|t| t.id());
            let mut co: COption<HeapTok> = src.into();
            ensure!(co.is_some() == c.variant, "option-variant", "COption::from(Option) changed the variant");
            ensure!(co.as_ref().map(|t| (t.id(), t.val())) == id.map(|i| (i, c.vals[0])), "option-payload", "COption::as_ref payload differs");
            ensure!(co.as_mut().map(|t| t.id()) == id, "option-payload", "COption::as_mut payload differs");
            if let Some(i) = id {
                ensure!(tok::drops(i) == 0, "option-drop", "payload dropped while held by COption");
            }
            let back: Option<HeapTok> = match c.route % 3 {
                0 => co.into(),
                1 => {
                    let t = co.take();
                    ensure!(!co.is_some(), "option-take", "COption::take left Some behind");
                    ensure!(co.as_ref().is_none(), "option-take", "COption::take left Some behind");
                    t
                }
                _ => {
                    if c.variant {
                        Some(co.unwrap())
                    } else {
                        let r = std::panic::catch_unwind(std::panic::AssertUnwindSafe(|| co.unwrap()));
                        ensure!(r.is_err(), "option-unwrap", "COption::None.unwrap() did not panic");
                        None
                    }
                }
            };
            ensure!(back.is_some() == c.variant, "option-variant", "Option::from(COption) changed the variant");
            ensure!(back.as_ref().map(|t| (t.id(), t.val())) == id.map(|i| (i, c.vals[0])), "option-payload", "payload changed across COption");
            if let Some(i) = id {
                ensure!(tok::drops(i) == 0, "option-drop", "payload dropped by conversion");
                drop(back);
                ensure!(tok::drops(i) == 1, "option-drop", "payload dropped {} times", tok::drops(i));
            }
            let d: COption<HeapTok> = Default::default();
            ensure!(!d.is_some(), "option-default", "COption::default is Some");
        }
        1 => {
            let src: Result<HeapTok, HeapTok> = if c.variant { Ok(HeapTok::new(c.vals[0])) } else { Err(HeapTok::new(c.vals[1])) };
            let (id, val) = match &src {
                Ok(t) | Err(t) => (t.id(), t.val()),
            };
            let mut cr: CResult<HeapTok, HeapTok> = src.into();
            ensure!(cr.is_ok() == c.variant && cr.is_err() != c.variant, "result-variant", "CResult::from(Result) changed the variant");
            match cr.as_ref() {
                Ok(t) => ensure!(c.variant && t.id() == id, "result-payload", "as_ref Ok payload"),
                Err(t) => ensure!(!c.variant && t.id() == id, "result-payload", "as_ref Err payload"),
            }
            match cr.as_mut() {
                Ok(t) => ensure!(c.variant && t.id() == id, "result-payload", "as_mut Ok payload"),
                Err(t) => ensure!(!c.variant && t.id() == id, "result-payload", "as_mut Err payload"),
            }
            ensure!(tok::drops(id) == 0, "result-drop", "payload dropped while held by CResult");
            match c.route % 3 {
                0 => {
                    let back: Result<HeapTok, HeapTok> = cr.into();
                    ensure!(back.is_ok() == c.variant, "result-variant", "Result::from(CResult) changed the variant");
                    let t = match back {
                        Ok(t) | Err(t) => t,
                    };
                    ensure!(t.id() == id && t.val() == val, "result-payload", "payload changed across CResult");
                    ensure!(tok::drops(id) == 0, "result-drop", "payload dropped by conversion");
                }
                1 => {
                    let o = cr.ok();
                    ensure!(o.is_some() == c.variant, "result-ok", "CResult::ok variant");
                    if let Some(t) = &o {
                        ensure!(t.id() == id, "result-payload", "CResult::ok payload");
                    }
                }
                _ => {
                    if c.variant {
                        let t = cr.unwrap();
                        ensure!(t.id() == id, "result-payload", "CResult::unwrap payload");
                    } else {
                        let r = std::panic::catch_unwind(std::panic::AssertUnwindSafe(|| cr.unwrap()));
                        ensure!(r.is_err(), "result-unwrap", "CResult::Err.unwrap() did not panic");
                    }
                }
            }
            ensure!(tok::drops(id) == 1, "result-drop", "payload dropped {} times in total", tok::drops(id));
        }
        _ => {
            let v = c.vals;
            let t4 = (HeapTok::new(v[0]), HeapTok::new(v[1]), HeapTok::new(v[2]), HeapTok::new(v[3]));
            let ids = [t4.0.id(), t4.1.id(), t4.2.id(), t4.3.id()];
            let c4: CTup4<_, _, _, _> = t4.into();
            ensure!([c4.0.id(), c4.1.id(), c4.2.id(), c4.3.id()] == ids, "tuple-order", "CTup4 fields out of order");
            let b4: (HeapTok, HeapTok, HeapTok, HeapTok) = if c.route % 2 == 0 { c4.into() } else { c4.into_tuple() };
            ensure!([b4.0.id(), b4.1.id(), b4.2.id(), b4.3.id()] == ids, "tuple-order", "CTup4 -> tuple out of order");
            ensure!([b4.0.val(), b4.1.val(), b4.2.val(), b4.3.val()] == v, "tuple-payload", "CTup4 payload changed");
            let (a, b, cc, d) = b4;
            let c3: CTup3<_, _, _> = (a, b, cc).into();
            ensure!([c3.0.id(), c3.1.id(), c3.2.id()] == ids[..3], "tuple-order", "CTup3 fields out of order");
            let (a, b, cc): (HeapTok, HeapTok, HeapTok) = if c.route % 2 == 0 { c3.into() } else { c3.into_tuple() };
            ensure!([a.id(), b.id(), cc.id()] == ids[..3], "tuple-order", "CTup3 -> tuple out of order");
            let c2: CTup2<_, _> = (a, b).into();
            ensure!([c2.0.id(), c2.1.id()] == ids[..2], "tuple-order", "CTup2 fields out of order");
            let (a, b): (HeapTok, HeapTok) = if c.route % 2 == 0 { c2.into() } else { c2.into_tuple() };
            ensure!([a.id(), b.id()] == ids[..2], "tuple-order", "CTup2 -> tuple out of order");
            let c1: CTup1<_> = (a,).into();
            ensure!(c1.0.id() == ids[0], "tuple-order", "CTup1 field");
            let (a,): (HeapTok,) = if c.route % 2 == 0 { c1.into() } else { c1.into_tuple() };
            ensure!(a.id() == ids[0], "tuple-order", "CTup1 -> tuple");
            for i in ids {
                ensure!(tok::drops(i) == 0, "tuple-drop", "token {i} dropped {} times while still held", tok::drops(i));
            }
            drop((a, b, d));
            // fields of different size and alignment (a Rust tuple may order them differently
            // from the repr(C) struct: the conversion has to go field by field)
            let m3 = (v[0] as u8, v[1], v[2] as u16);
            let c3: CTup3<u8, u64, u16> = m3.into();
            ensure!((c3.0, c3.1, c3.2) == m3, "tuple-payload", "CTup3<u8,u64,u16> holds {:?} for {:?}", (c3.0, c3.1, c3.2), m3);
            let back: (u8, u64, u16) = if c.route % 2 == 0 { c3.into() } else { c3.into_tuple() };
            ensure!(back == m3, "tuple-payload", "CTup3<u8,u64,u16> converts back to {back:?}, expected {m3:?}");
            let m4 = (v[0] as u8, v[1] as u32, v[2] as u8, v[3]);
            let c4: CTup4<u8, u32, u8, u64> = m4.into();
            let back: (u8, u32, u8, u64) = if c.route % 2 == 0 { c4.into() } else { c4.into_tuple() };
            ensure!(back == m4, "tuple-payload", "CTup4<u8,u32,u8,u64> converts back to {back:?}, expected {m4:?}");
            let m2 = (v[3] as u16, v[0]);
            let c2: CTup2<u16, u64> = m2.into();
            let back: (u16, u64) = if c.route % 2 == 0 { c2.into() } else { c2.into_tuple() };
            ensure!(back == m2, "tuple-payload", "CTup2<u16,u64> converts back to {back:?}, expected {m2:?}");
            let t = HeapTok::new(v[1]);
            let tid = t.id();
            let cd: CTup3<u8, HeapTok, u16> = (v[0] as u8, t, v[2] as u16).into();
            let (x, t, y): (u8, HeapTok, u16) = if c.route % 2 == 0 { cd.into() } else { cd.into_tuple() };
            ensure!(x == v[0] as u8 && y == v[2] as u16 && t.id() == tid && t.val() == v[1], "tuple-payload", "CTup3<u8,token,u16> converts back to ({x}, token {}, {y})", t.id());
            drop(t);
        }
    }
    Ok(())
}

pub fn check_enum(c: &EnumCase) -> CaseResult {
    let (r, rep) = tracked_confirmed(|| enum_case(c));
    r?;
    let bad = tok::mismatches(|_| 1);
    ensure!(bad.is_empty(), "payload-drop-count", "tokens with drop count != 1 (id, expected, seen): {:?}", &bad[..bad.len().min(4)]);
    if !rep.clean() {
        fail!(if rep.misuses.is_empty() { "leak" } else { "alloc-misuse" }, "{}", rep.describe());
    }
    Ok(Info::new(true).class(["COption", "CResult", "CTup"][(c.which % 3) as usize]))
}

pub fn slice_strategy() -> impl Strategy<Value = SliceCase> {
    (
        0u8..4,
        prop_oneof![3 => 0u16..=64, 1 => 65u16..3000],
        any::<u8>(),
        any::<u64>(),
        prop::collection::vec((any::<u16>(), any::<u64>()), 0..6),
    )
        .prop_map(|(elem, len, offset, seed, writes)| SliceCase { elem, len, offset, seed, writes })
}

pub fn utf8_strategy() -> impl Strategy<Value = Utf8Case> {
    let boundary = prop::sample::select(BOUNDARY.to_vec());
    let byte = prop_oneof![3 => boundary, 2 => any::<u8>(), 2 => 0x20u8..0x7f];
    prop_oneof![
        2 => prop::collection::vec(byte, 0..48).prop_map(|bytes| Utf8Case { bytes }),
        // valid text, possibly damaged at one position
        2 => ("\\PC{0,16}", any::<u16>(), prop::option::of(any::<u8>())).prop_map(|(s, pos, dmg)| {
            let mut bytes = s.into_bytes();
            if let (Some(d), false) = (dmg, bytes.is_empty()) {
                let i = verifkit::pick(pos, bytes.len());
                bytes[i] = d;
            }
            Utf8Case { bytes }
        }),
        // valid text truncated in the middle of a sequence
        1 => ("\\PC{1,12}", any::<u16>()).prop_map(|(s, pos)| {
            let mut bytes = s.into_bytes();
            let i = verifkit::pick(pos, bytes.len() + 1);
            bytes.truncate(i);
            Utf8Case { bytes }
        }),
    ]
}

pub fn enum_strategy() -> impl Strategy<Value = EnumCase> {
    (0u8..3, any::<bool>(), any::<[u64; 4]>(), 0u8..6).prop_map(|(which, variant, vals, route)| EnumCase { which, variant, vals, route })
}

pub fn run(ctx: &Ctx) -> i32 {
    if ctx.is_replay() {
        ctx.run("slices", 1, slice_strategy(), check_slice);
        ctx.run("utf8-random", 1, utf8_strategy(), check_utf8);
        ctx.run("utf8-all-bytes", 1, utf8_strategy(), check_utf8);
        ctx.run("utf8-boundary", 1, utf8_strategy(), check_utf8);
        ctx.run("option-result-tuple", 1, enum_strategy(), check_enum);
    } else {
        // every length 0..=64 for every element type, deterministically, then random
        for elem in 0..4u8 {
            for len in 0..=64u16 {
                let c = SliceCase { elem, len, offset: len as u8, seed: len as u64 * 31 + elem as u64, writes: vec![(0, 1), (0xffff, 2), (0x8000, 3)] };
                if !ctx.eval("slices", &c, check_slice) {
                    break;
                }
            }
        }
        ctx.run("slices", ctx.n(6_000, 100_000), slice_strategy(), check_slice);
        if !ctx.failed() {
            let all: Vec<u8> = (0..=255u8).collect();
            sweep(ctx, "utf8-all-bytes", &all, ctx.n(2, 3) as usize);
        }
        if !ctx.failed() {
            sweep(ctx, "utf8-boundary", &BOUNDARY, ctx.n(4, 5) as usize);
        }
        ctx.run("utf8-random", ctx.n(20_000, 400_000), utf8_strategy(), check_utf8);
        ctx.run("option-result-tuple", ctx.n(10_000, 200_000), enum_strategy(), check_enum);
    }
    ctx.finish(
        "slices: element types {u8,u64,(),3-byte struct} x every length 0..=64 (deterministic) + random lengths up to 3000, at a non-zero offset inside a larger buffer, round-tripped through every conversion of CSliceRef/CSliceMut with writes through three routes; UTF-8: ALL byte strings up to a length bound over all 256 bytes and over a 19-byte boundary alphabet (enumerated), plus random/damaged/truncated text, decision compared with a hand-written RFC 3629 validator (itself cross-checked against std); COption/CResult/CTup1-4 with droppable payloads and with fields of mixed size and alignment through every conversion route. Non-trivial = non-empty slice, or invalid / non-ASCII bytes, or a droppable payload; enumerated inputs are distinct by construction",
        &["hand-written RFC 3629 validator is the UTF-8 reference (aborts the run as inconclusive if it ever disagrees with std)"],
        false,
    )
}
