//! Runtime-type properties of cglue, checked by generated histories against std models.
//! usage: rtprops <C06|C07|C10|...> [--tier quick|thorough] [--seed N] [--out file] [--known keys] [--replay file]
use verifkit::{Args, Ctx};
// cglue's expansion of borrowed wrapped returns names `crate::trait_group`
#[allow(unused_imports)]
pub use cglue::*;

#[global_allocator]
static A: verifkit::alloc::Tracking = verifkit::alloc::Tracking;

mod boxes;
mod c0607;
mod c10;
mod fam;
mod c11;
mod c12;
mod c13;
mod c14;
mod c15;
mod c16;
mod c19;

fn main() {
    verifkit::quiet_panics();
    let args = Args::parse();
    let ctx = Ctx::new(args);
    let code = match ctx.args.prop.as_str() {
        "C06" => c0607::run(&ctx, "C06"),
        "C07" => c0607::run(&ctx, "C07"),
        "C10" => c10::run(&ctx),
        "C11" => c11::run(&ctx),
        "C12" => c12::run(&ctx),
        "C13" => c13::run(&ctx),
        "C14" => c14::run(&ctx),
        "C15" => c15::run(&ctx),
        "C16" => c16::run(&ctx),
        "C19" => c19::run(&ctx),
        p => {
            eprintln!("rtprops: unknown property {p}");
            2
        }
    };
    std::process::exit(code);
}
