//! usage: rtprops <C06|C07|C10|...> [--tier quick|thorough] [--seed N] [--out file] [--known keys] [--replay file]
use verifkit::{Args, Ctx};

#[global_allocator]
static A: verifkit::alloc::Tracking = verifkit::alloc::Tracking;

/// alternative configuration: a logger that is switched on at the most verbose level and
/// formats every record (into a fixed buffer, nothing is allocated), so that whatever the
/// library computes for its log lines is really computed
#[cfg(feature = "altcfg")]
mod trace_logger {
    use std::fmt::Write;
    pub struct Sink;
    struct Buf([u8; 256], usize);
    impl Write for Buf {
        fn write_str(&mut self, s: &str) -> std::fmt::Result {
            for b in s.bytes() {
                if self.1 < self.0.len() {
                    self.0[self.1] = b;
                    self.1 += 1;
                }
            }
            Ok(())
        }
    }
    impl log::Log for Sink {
        fn enabled(&self, _: &log::Metadata) -> bool {
            true
        }
        fn log(&self, r: &log::Record) {
            let mut b = Buf([0; 256], 0);
            let _ = write!(b, "{}", r.args());
            std::hint::black_box(&b.0);
        }
        fn flush(&self) {}
    }
    pub static SINK: Sink = Sink;
    pub fn install() {
        let _ = log::set_logger(&SINK);
        log::set_max_level(log::LevelFilter::Trace);
    }
}

fn main() {
    #[cfg(feature = "altcfg")]
    trace_logger::install();
    // rtprops --decode-fuzz <target> <artifact>: print the case a fuzzer artifact decodes to
    let a: Vec<String> = std::env::args().collect();
    if a.get(1).map(|s| s == "--decode-fuzz").unwrap_or(false) {
        let bytes = std::fs::read(&a[3]).expect("artifact unreadable");
        match rtprops::decode_fuzz(&a[2], &bytes) {
            Some((sub, case)) => println!("{}", serde_json::json!({"sub": sub, "case": case})),
            None => std::process::exit(2),
        }
        return;
    }
    // rtprops --abi-probe <name>: one ABI probe (see abi.rs); --abi-probe list prints the names
    if a.get(1).map(|s| s == "--abi-probe").unwrap_or(false) {
        if a.get(2).map(|s| s == "list").unwrap_or(true) {
            println!("{}", rtprops::abi::PROBES.join("\n"));
            return;
        }
        rtprops::abi::run(&a[2]);
    }
    verifkit::quiet_panics();
    let ctx = Ctx::new(Args::parse());
    std::process::exit(rtprops::run_property(&ctx));
}
