//! usage: rtprops <C06|C07|C10|...> [--tier quick|thorough] [--seed N] [--out file] [--known keys] [--replay file]
use verifkit::{Args, Ctx};

#[global_allocator]
static A: verifkit::alloc::Tracking = verifkit::alloc::Tracking;

fn main() {
    // rtprops --decode-fuzz <target> <artifact>: print the case a fuzzer artifact decodes to
    let a: Vec<String> = std::env::args().collect();
    if a.get(1).map(|s| s == "--decode-fuzz").unwrap_or(false) {
        let bytes = std::fs::read(&a[3]).expect("artifact unreadable");
        match rtprops::decode_fuzz(&a[2], &bytes) {
            Some((sub, case)) => println!("{}", serde_json::json!({"sub": sub, "case": case})),
            None => std::process::exit(2),
        }
        return;
    }
    // rtprops --abi-probe <name>: one ABI probe (see abi.rs); --abi-probe list prints the names
    if a.get(1).map(|s| s == "--abi-probe").unwrap_or(false) {
        if a.get(2).map(|s| s == "list").unwrap_or(true) {
            println!("{}", rtprops::abi::PROBES.join("\n"));
            return;
        }
        rtprops::abi::run(&a[2]);
    }
    verifkit::quiet_panics();
    let ctx = Ctx::new(Args::parse());
    std::process::exit(rtprops::run_property(&ctx));
}
