//! Entry points for C06 and C07 (hand-written family histories; the generated-program half of
//! both properties lives in the progbatch engine).
use crate::{boxes, fam};
use verifkit::Ctx;

pub fn run(ctx: &Ctx, prop: &'static str) -> i32 {
    ctx.run("family-histories", ctx.n(5_000, 150_000), fam::strategy(), |c| fam::check(ctx, prop, c));
    if prop == "C06" {
        ctx.run("boxes", ctx.n(20_000, 400_000), boxes::strategy(), boxes::check);
    }
    if prop == "C07" {
        ctx.run("last-holder", ctx.n(120, 5_000), fam::last_holder_strategy(), |c| fam::check(ctx, prop, c));
    }
    let rule = if prop == "C06" {
        "histories over a pool of opaque objects of a hand-written three-level trait family (root with owned/borrowed/mutably-borrowed wrapped returns as objects and groups, consuming->wrapped and consuming->scalar methods, mid level, leaf level, Clone) sharing one CArc context: {create object/group, call, obtain owned child object/group, obtain borrowed child, clone via the group's Clone, cast + upcast, into (final form) + use, consuming calls, drop} with a generated final drop order; every payload owns a heap token. plus histories over CBox / CSliceBox values (heap-owning, zero-sized droppable and plain payloads, empty and non-empty slices, three constructors, into_opaque, access, drop in generated order). Oracle: each token dropped exactly once by the end, allocation window balanced with matching layouts. Non-trivial = the history contains an ownership transfer beyond create/drop"
    } else {
        "same family and histories; after EVERY step the context's strong count (observed through a Weak) must equal: harness reference + number of live objects carrying the context, and it returns to the start value when all derived objects are gone, in every drop order; dedicated histories end with a consuming call on the object that holds the last context reference, where the payload's Drop captures a backtrace that must not contain the C-side wrapper frame (the context may only be released after control has returned to the caller). Non-trivial = a derived object outlives its parent, or a derived object was obtained, or a consuming call was made on the last holder"
    };
    ctx.finish(rule, &["debug symbols are present so that frame names can be read from std::backtrace", "the known ret_tmp finding is modelled as +1 per borrowed wrapped return and counted"], false)
}
