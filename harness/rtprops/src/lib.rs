//! Runtime-type properties of cglue, checked by generated histories against std models.
//! usage: rtprops <C06|C07|C10|...> [--tier quick|thorough] [--seed N] [--out file] [--known keys] [--replay file]
use verifkit::Ctx;
// cglue's expansion of borrowed wrapped returns names `crate::trait_group`
#[allow(unused_imports)]
pub use cglue::*;


pub mod abi;
pub mod boxes;
pub mod c0607;
pub mod c10;
pub mod fam;
pub mod c11;
pub mod c12;
#[cfg(feature = "std")]
pub mod c13;
pub mod c14;
pub mod c15;
pub mod c16;
pub mod c19;


/// Dispatch by property id (shared by the rtprops binary and the fuzz targets).
pub fn run_property(ctx: &Ctx) -> i32 {
    match ctx.args.prop.as_str() {
        "C06" => c0607::run(ctx, "C06"),
        "C07" => c0607::run(ctx, "C07"),
        "C10" => c10::run(ctx),
        "C11" => c11::run(ctx),
        "C12" => c12::run(ctx),
        #[cfg(feature = "std")]
        "C13" => c13::run(ctx),
        "C14" => c14::run(ctx),
        "C15" => c15::run(ctx),
        "C16" => c16::run(ctx),
        "C19" => c19::run(ctx),
        p => {
            eprintln!("rtprops: unknown property {p}");
            2
        }
    }
}

/// Decode a fuzzer artifact of the named fuzz target into (sub-check, case JSON).
pub fn decode_fuzz(target: &str, bytes: &[u8]) -> Option<(&'static str, serde_json::Value)> {
    use verifkit::fuzzde::from_fuzz_bytes as d;
    fn j<T: serde::Serialize>(t: Option<T>) -> Option<serde_json::Value> {
        t.and_then(|t| serde_json::to_value(t).ok())
    }
    Some(match target {
        "cvec_ops" => ("random-long", j(d::<c11::Case>(bytes))?),
        "carc_ops" => ("single-thread", j(d::<c10::Case>(bytes))?),
        "reprcstring" => ("cstring", j(d::<c14::Case>(bytes))?),
        "slices_utf8" => ("utf8-random", j(d::<c12::Utf8Case>(bytes))?),
        "callback_iter" => ("iterators", j(d::<c15::ItCase>(bytes))?),
        "waker_ops" => ("waker-histories", j(d::<c19::Case>(bytes))?),
        "layout_views" => ("views", j(d::<c16::Case>(bytes))?),
        #[cfg(feature = "std")]
        "int_result" => ("encode-decode", j(d::<c13::Case>(bytes))?),
        #[cfg(feature = "std")]
        "int_result_gen" => ("generated", j(d::<c13::wrapped::WCase>(bytes))?),
        "lifecycle" => ("boxes", j(d::<boxes::Case>(bytes))?),
        _ => return None,
    })
}
