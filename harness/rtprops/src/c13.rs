//! C13 (library half) — integer result codes: zero means success and the output is initialised.
use cglue::result::{
    from_int_result, from_int_result_empty, into_int_out_result, into_int_result, IntError, IntResult,
};
use proptest::prelude::*;
use serde::{Deserialize, Serialize};
use serde_json::json;
use std::mem::MaybeUninit;
use std::num::NonZeroI32;
use verifkit::tok::{self, HeapTok};
use verifkit::{ensure, fail, tracked_confirmed, CaseResult, Ctx, Fail, Info};

#[derive(Debug, PartialEq, Eq, Clone, Copy)]
pub struct UserErr(NonZeroI32);
impl IntError for UserErr {
    fn into_int_err(self) -> NonZeroI32 {
        self.0
    }
    fn from_int_err(err: NonZeroI32) -> Self {
        UserErr(err)
    }
}

#[derive(Debug, Clone, Serialize, Deserialize)]
pub struct Case {
    /// 0 io::Error raw OS code 1 io::Error non-OS kind 2 () 3 fmt::Error 4 user IntError
    pub err: u8,
    /// 0 () 1 u64 2 droppable
    pub payload: u8,
    pub ok: bool,
    pub code: i32,
    pub val: u64,
    /// 0 free functions, 1 IntResult trait methods
    pub route: u8,
}

const POISON: u8 = 0xA7;

/// what the error decodes to, reduced to something comparable
#[derive(Debug, PartialEq, Eq)]
enum ErrSig {
    Io(Option<i32>),
    Unit,
    Fmt,
    User(i32),
}

trait TestErr: IntError + Sized {
    fn make(case: &Case) -> Self;
    fn sig(&self) -> ErrSig;
    /// signature expected after encode -> decode
    fn expect(case: &Case) -> ErrSig;
}
impl TestErr for std::io::Error {
    fn make(c: &Case) -> Self {
        if c.err == 0 {
            std::io::Error::from_raw_os_error(c.code)
        } else {
            let kinds = [
                std::io::ErrorKind::Other,
                std::io::ErrorKind::NotFound,
                std::io::ErrorKind::UnexpectedEof,
                std::io::ErrorKind::InvalidData,
            ];
            std::io::Error::new(kinds[(c.code as u32 % 4) as usize], "synthetic")
        }
    }
    fn sig(&self) -> ErrSig {
        ErrSig::Io(self.raw_os_error())
    }
    fn expect(c: &Case) -> ErrSig {
        if c.err == 0 && c.code != 0 {
            ErrSig::Io(Some(c.code))
        } else {
            // no OS code to carry: the statement only requires "non-zero"; whatever code the
            // library picked must come back as an OS error of that code
            ErrSig::Io(None)
        }
    }
}
impl TestErr for () {
    fn make(_: &Case) -> Self {}
    fn sig(&self) -> ErrSig {
        ErrSig::Unit
    }
    fn expect(_: &Case) -> ErrSig {
        ErrSig::Unit
    }
}
impl TestErr for std::fmt::Error {
    fn make(_: &Case) -> Self {
        std::fmt::Error
    }
    fn sig(&self) -> ErrSig {
        ErrSig::Fmt
    }
    fn expect(_: &Case) -> ErrSig {
        ErrSig::Fmt
    }
}
impl TestErr for UserErr {
    fn make(c: &Case) -> Self {
        UserErr(NonZeroI32::new(c.code).unwrap_or(NonZeroI32::new(-7).unwrap()))
    }
    fn sig(&self) -> ErrSig {
        ErrSig::User(self.0.get())
    }
    fn expect(c: &Case) -> ErrSig {
        ErrSig::User(if c.code == 0 { -7 } else { c.code })
    }
}

trait Pay: Sized {
    fn make(v: u64) -> Self;
    fn ident(&self) -> (u64, Option<u32>);
}
impl Pay for () {
    fn make(_: u64) -> Self {}
    fn ident(&self) -> (u64, Option<u32>) {
        (0, None)
    }
}
impl Pay for u64 {
    fn make(v: u64) -> Self {
        v
    }
    fn ident(&self) -> (u64, Option<u32>) {
        (*self, None)
    }
}
impl Pay for HeapTok {
    fn make(v: u64) -> Self {
        HeapTok::new(v)
    }
    fn ident(&self) -> (u64, Option<u32>) {
        (self.val(), Some(self.id()))
    }
}

fn slot_bytes<T>(s: &MaybeUninit<T>) -> Vec<u8> {
    let n = std::mem::size_of::<T>();
    let p = s.as_ptr() as *const u8;
    (0..n).map(|i| unsafe { *p.add(i) }).collect()
}

fn one<T: Pay, E: TestErr>(c: &Case) -> Result<(), Fail> {
    let toks_before = tok::issued();
    let res: Result<T, E> = if c.ok { Ok(T::make(c.val)) } else { Err(E::make(c)) };
    let ident = res.as_ref().ok().map(|t| t.ident());
    let mut slot: MaybeUninit<T> = MaybeUninit::uninit();
    unsafe { std::ptr::write_bytes(slot.as_mut_ptr() as *mut u8, POISON, std::mem::size_of::<T>()) };
    let code = if c.route % 2 == 0 {
        into_int_out_result(res, &mut slot)
    } else {
        res.into_int_out_result(&mut slot)
    };
    ensure!((code == 0) == c.ok, "zero-iff-ok", "into_int_out_result returned {code} for {}", if c.ok { "Ok" } else { "Err" });
    if c.ok {
        // the success value has been moved into the slot, once
        if let Some((_, Some(id))) = ident {
            ensure!(tok::drops(id) == 0, "ok-dropped", "success payload was dropped while being encoded");
        }
        let decoded: Result<T, E> = unsafe { from_int_result(code, slot) };
        match decoded {
            Ok(v) => {
                ensure!(Some(v.ident()) == ident, "ok-value", "decoded success value {:?} differs from the encoded one {:?}", v.ident(), ident);
                if let Some((_, Some(id))) = ident {
                    ensure!(tok::drops(id) == 0, "ok-dropped", "success payload dropped before the caller got it");
                    drop(v);
                    ensure!(tok::drops(id) == 1, "ok-dropped", "success payload dropped {} times", tok::drops(id));
                }
            }
            Err(_) => fail!("decode-variant", "code 0 decoded to Err"),
        }
    } else {
        ensure!(
            slot_bytes(&slot).iter().all(|b| *b == POISON),
            "err-writes-slot",
            "output slot was written although the result was Err (code {code})"
        );
        ensure!(tok::issued() == toks_before, "err-creates-value", "a payload value appeared on the Err path");
        // decoding a failure must not look at the (uninitialised) slot: it stays poison, so a read
        // would produce a value whose destructor the token registry / allocator would notice
        let decoded: Result<T, E> = unsafe { from_int_result(code, slot) };
        match decoded {
            Ok(_) => fail!("decode-variant", "non-zero code {code} decoded to Ok (uninitialised slot was read)"),
            Err(e) => {
                let want = E::expect(c);
                let got = e.sig();
                if want == ErrSig::Io(None) {
                    ensure!(matches!(got, ErrSig::Io(Some(x)) if x == code), "err-roundtrip", "io error without OS code: encoded as {code}, decoded as {got:?}");
                } else {
                    ensure!(got == want, "err-roundtrip", "error changed across encode/decode: expected {want:?}, got {got:?} (code {code})");
                }
            }
        }
    }
    // the payload-less variants
    let res2: Result<T, E> = if c.ok { Ok(T::make(c.val)) } else { Err(E::make(c)) };
    let id2 = res2.as_ref().ok().and_then(|t| t.ident().1);
    let code2 = if c.route % 2 == 0 { into_int_result(res2) } else { res2.into_int_result() };
    ensure!((code2 == 0) == c.ok, "zero-iff-ok", "into_int_result returned {code2} for {}", if c.ok { "Ok" } else { "Err" });
    ensure!(c.ok || code2 == code, "err-code-stable", "the two encoders disagree: {code} vs {code2}");
    if let Some(id) = id2 {
        ensure!(tok::drops(id) == 1, "ok-dropped", "into_int_result dropped the discarded payload {} times", tok::drops(id));
    }
    let d: Result<(), E> = from_int_result_empty(code2);
    ensure!(d.is_ok() == c.ok, "decode-variant", "from_int_result_empty({code2}) gave the wrong variant");
    Ok(())
}

pub fn check(c: &Case) -> CaseResult {
    let (r, rep) = tracked_confirmed(|| {
        macro_rules! with_err {
            ($t:ty) => {
                match c.err % 5 {
                    0 | 1 => one::<$t, std::io::Error>(c),
                    2 => one::<$t, ()>(c),
                    3 => one::<$t, std::fmt::Error>(c),
                    _ => one::<$t, UserErr>(c),
                }
            };
        }
        match c.payload % 3 {
            0 => with_err!(()),
            1 => with_err!(u64),
            _ => with_err!(HeapTok),
        }
    });
    r?;
    let bad = tok::mismatches(|_| 1);
    ensure!(bad.is_empty(), "payload-drop-count", "tokens with drop count != 1: {:?}", &bad[..bad.len().min(4)]);
    if !rep.clean() {
        fail!(if rep.misuses.is_empty() { "leak" } else { "alloc-misuse" }, "{}", rep.describe());
    }
    Ok(Info::new(!c.ok || c.payload % 3 == 2)
        .class(if c.ok { "Ok" } else { "Err" })
        .class(format!("err{}", c.err % 5))
        .class(format!("payload{}", c.payload % 3)))
}

fn sweep_codes(ctx: &Ctx, n_random: u64) {
    // all edge codes + a deterministic pseudo-random stream of i32 codes
    let mut codes: Vec<i32> = vec![0, 1, -1, 2, i32::MIN, i32::MAX, i32::MIN + 1, i32::MAX - 1, 0xffff, 0x10000, -0xffff, 0xfffe, 255, 256, 4095, 11, 32, 104];
    codes.extend(-300..300);
    let mut x = verifkit::mix_seed(ctx.args.seed, "C13/codes");
    for _ in 0..n_random {
        x ^= x << 13;
        x ^= x >> 7;
        x ^= x << 17;
        codes.push(x as i32);
    }
    codes.sort_unstable();
    codes.dedup(); // distinct by construction
    let mut evals = 0u64;
    for (k, code) in codes.iter().enumerate() {
        let c = Case { err: 0, payload: 1, ok: false, code: *code, val: 5, route: (k % 2) as u8 };
        let r = one::<u64, std::io::Error>(&c).and_then(|_| {
            // "no error ever encodes to 0" + "a non-zero OS code survives unchanged"
            let e = std::io::Error::from_raw_os_error(*code);
            let enc = e.into_int_err().get();
            ensure!(enc != 0, "encodes-to-zero", "io error with OS code {code} encodes to 0");
            if *code != 0 {
                ensure!(enc == *code, "os-code-changed", "OS code {code} encoded as {enc}");
                let back = std::io::Error::from_int_err(NonZeroI32::new(enc).unwrap());
                ensure!(back.raw_os_error() == Some(*code), "os-code-changed", "OS code {code} decoded as {:?}", back.raw_os_error());
            }
            Ok(())
        });
        match r {
            Ok(()) => evals += 1,
            Err(f) => {
                ctx.violation("os-codes", &c, f);
                return;
            }
        }
    }
    ctx.bulk("os-codes", evals, evals, &[], vec![json!({"code": codes[2]}), json!({"code": codes[codes.len() - 1]})]);
}

pub fn strategy() -> impl Strategy<Value = Case> {
    (
        0u8..5,
        0u8..3,
        any::<bool>(),
        prop_oneof![2 => any::<i32>(), 1 => prop::sample::select(vec![0, 1, -1, i32::MIN, i32::MAX, 0xffff, 2, 11])],
        any::<u64>(),
        0u8..2,
    )
        .prop_map(|(err, payload, ok, code, val, route)| Case { err, payload, ok, code, val, route })
}

pub fn run(ctx: &Ctx) -> i32 {
    if ctx.is_replay() {
        ctx.run("encode-decode", 1, strategy(), check);
        ctx.run("os-codes", 1, strategy(), check);
    } else {
        // the full product of shapes, deterministically
        for err in 0..5u8 {
            for payload in 0..3u8 {
                for ok in [true, false] {
                    for code in [0, 1, -1, 0xffff, i32::MIN, i32::MAX, 13] {
                        for route in 0..2u8 {
                            let c = Case { err, payload, ok, code, val: 77, route };
                            if !ctx.eval("encode-decode", &c, check) {
                                return ctx.finish(RULE, &[], false);
                            }
                        }
                    }
                }
            }
        }
        ctx.run("encode-decode", ctx.n(30_000, 500_000), strategy(), check);
        if !ctx.failed() {
            sweep_codes(ctx, ctx.n(300_000, 5_000_000) as u64);
        }
    }
    ctx.finish(RULE, &["the output slot is pre-filled with a byte pattern; 'untouched' means byte-identical afterwards"], false)
}

const RULE: &str = "Result<T,E> with T in {(), u64, droppable heap token} x E in {io::Error from raw OS code, io::Error of a non-OS kind, (), fmt::Error, user IntError} x {Ok, Err} x {free functions, IntResult methods}: full product with edge codes enumerated, then random; plus all edge OS codes and a long pseudo-random stream of i32 codes through encode->decode. Oracle: code==0 iff Ok; on Ok the slot holds the very value (token identity) and it is dropped exactly once after decoding; on Err the poisoned slot is byte-identical afterwards and no value was created or dropped; decoding non-zero yields Err with the same OS code / user code; no shipped error encodes to 0. Non-trivial = Err, or Ok with a droppable payload";
