//! C13 (library half) — integer result codes: zero means success and the output is initialised.
use cglue::result::{
    from_int_result, from_int_result_empty, into_int_out_result, into_int_result, IntError, IntResult,
};
use proptest::prelude::*;
use serde::{Deserialize, Serialize};
use serde_json::json;
use std::mem::MaybeUninit;
use std::num::NonZeroI32;
use verifkit::tok::{self, HeapTok};
use verifkit::{ensure, fail, tracked_confirmed, CaseResult, Ctx, Fail, Info};

#[derive(Debug, PartialEq, Eq, Clone, Copy)]
pub struct UserErr(NonZeroI32);
impl IntError for UserErr {
    fn into_int_err(self) -> NonZeroI32 {
        self.0
    }
    fn from_int_err(err: NonZeroI32) -> Self {
        UserErr(err)
    }
}

#[derive(Debug, Clone, Serialize, Deserialize)]
pub struct Case {
    /// 0 io::Error raw OS code 1 io::Error non-OS kind 2 () 3 fmt::Error 4 user IntError
    pub err: u8,
    /// 0 () 1 u64 2 droppable
    pub payload: u8,
    pub ok: bool,
    pub code: i32,
    pub val: u64,
    /// 0 free functions, 1 IntResult trait methods
    pub route: u8,
}

const POISON: u8 = 0xA7;

/// what the error decodes to, reduced to something comparable
#[derive(Debug, PartialEq, Eq)]
enum ErrSig {
    Io(Option<i32>),
    Unit,
    Fmt,
    User(i32),
}

trait TestErr: IntError + Sized {
    fn make(case: &Case) -> Self;
    fn sig(&self) -> ErrSig;
    /// signature expected after encode -> decode
    fn expect(case: &Case) -> ErrSig;
}
impl TestErr for std::io::Error {
    fn make(c: &Case) -> Self {
        if c.err == 0 {
            std::io::Error::from_raw_os_error(c.code)
        } else {
            let kinds = [
                std::io::ErrorKind::Other,
                std::io::ErrorKind::NotFound,
                std::io::ErrorKind::UnexpectedEof,
                std::io::ErrorKind::InvalidData,
            ];
            std::io::Error::new(kinds[(c.code as u32 % 4) as usize], "synthetic")
        }
    }
    fn sig(&self) -> ErrSig {
        ErrSig::Io(self.raw_os_error())
    }
    fn expect(c: &Case) -> ErrSig {
        if c.err == 0 && c.code != 0 {
            ErrSig::Io(Some(c.code))
        } else {
            // no OS code to carry: the statement only requires "non-zero"; whatever code the
            // library picked must come back as an OS error of that code
            ErrSig::Io(None)
        }
    }
}
impl TestErr for () {
    fn make(_: &Case) -> Self {}
    fn sig(&self) -> ErrSig {
        ErrSig::Unit
    }
    fn expect(_: &Case) -> ErrSig {
        ErrSig::Unit
    }
}
impl TestErr for std::fmt::Error {
    fn make(_: &Case) -> Self {
        std::fmt::Error
    }
    fn sig(&self) -> ErrSig {
        ErrSig::Fmt
    }
    fn expect(_: &Case) -> ErrSig {
        ErrSig::Fmt
    }
}
impl TestErr for UserErr {
    fn make(c: &Case) -> Self {
        UserErr(NonZeroI32::new(c.code).unwrap_or(NonZeroI32::new(-7).unwrap()))
    }
    fn sig(&self) -> ErrSig {
        ErrSig::User(self.0.get())
    }
    fn expect(c: &Case) -> ErrSig {
        ErrSig::User(if c.code == 0 { -7 } else { c.code })
    }
}

trait Pay: Sized {
    fn make(v: u64) -> Self;
    fn ident(&self) -> (u64, Option<u32>);
}
impl Pay for () {
    fn make(_: u64) -> Self {}
    fn ident(&self) -> (u64, Option<u32>) {
        (0, None)
    }
}
impl Pay for u64 {
    fn make(v: u64) -> Self {
        v
    }
    fn ident(&self) -> (u64, Option<u32>) {
        (*self, None)
    }
}
impl Pay for HeapTok {
    fn make(v: u64) -> Self {
        HeapTok::new(v)
    }
    fn ident(&self) -> (u64, Option<u32>) {
        (self.val(), Some(self.id()))
    }
}

fn slot_bytes<T>(s: &MaybeUninit<T>) -> Vec<u8> {
    let n = std::mem::size_of::<T>();
    let p = s.as_ptr() as *const u8;
    (0..n).map(|i| unsafe { *p.add(i) }).collect()
}

fn one<T: Pay, E: TestErr>(c: &Case) -> Result<(), Fail> {
    let toks_before = tok::issued();
    let res: Result<T, E> = if c.ok { Ok(T::make(c.val)) } else { Err(E::make(c)) };
    let ident = res.as_ref().ok().map(|t| t.ident());
    let mut slot: MaybeUninit<T> = MaybeUninit::uninit();
    unsafe { std::ptr::write_bytes(slot.as_mut_ptr() as *mut u8, POISON, std::mem::size_of::<T>()) };
    let code = if c.route % 2 == 0 {
        into_int_out_result(res, &mut slot)
    } else {
        res.into_int_out_result(&mut slot)
    };
    ensure!((code == 0) == c.ok, "zero-iff-ok", "into_int_out_result returned {code} for {}", if c.ok { "Ok" } else { "Err" });
    if c.ok {
        // the success value has been moved into the slot, once
        if let Some((_, Some(id))) = ident {
            ensure!(tok::drops(id) == 0, "ok-dropped", "success payload was dropped while being encoded");
        }
        let decoded: Result<T, E> = unsafe { from_int_result(code, slot) };
        match decoded {
            Ok(v) => {
                ensure!(Some(v.ident()) == ident, "ok-value", "decoded success value {:?} differs from the encoded one {:?}", v.ident(), ident);
                if let Some((_, Some(id))) = ident {
                    ensure!(tok::drops(id) == 0, "ok-dropped", "success payload dropped before the caller got it");
                    drop(v);
                    ensure!(tok::drops(id) == 1, "ok-dropped", "success payload dropped {} times", tok::drops(id));
                }
            }
            Err(_) => fail!("decode-variant", "code 0 decoded to Err"),
        }
    } else {
        ensure!(
            slot_bytes(&slot).iter().all(|b| *b == POISON),
            "err-writes-slot",
            "output slot was written although the result was Err (code {code})"
        );
        ensure!(tok::issued() == toks_before, "err-creates-value", "a payload value appeared on the Err path");
        // decoding a failure must not look at the (uninitialised) slot: it stays poison, so a read
        // would produce a value whose destructor the token registry / allocator would notice
        let decoded: Result<T, E> = unsafe { from_int_result(code, slot) };
        match decoded {
            Ok(_) => fail!("decode-variant", "non-zero code {code} decoded to Ok (uninitialised slot was read)"),
            Err(e) => {
                let want = E::expect(c);
                let got = e.sig();
                if want == ErrSig::Io(None) {
                    ensure!(matches!(got, ErrSig::Io(Some(x)) if x == code), "err-roundtrip", "io error without OS code: encoded as {code}, decoded as {got:?}");
                } else {
                    ensure!(got == want, "err-roundtrip", "error changed across encode/decode: expected {want:?}, got {got:?} (code {code})");
                }
            }
        }
    }
    // the payload-less variants
    let res2: Result<T, E> = if c.ok { Ok(T::make(c.val)) } else { Err(E::make(c)) };
    let id2 = res2.as_ref().ok().and_then(|t| t.ident().1);
    let code2 = if c.route % 2 == 0 { into_int_result(res2) } else { res2.into_int_result() };
    ensure!((code2 == 0) == c.ok, "zero-iff-ok", "into_int_result returned {code2} for {}", if c.ok { "Ok" } else { "Err" });
    ensure!(c.ok || code2 == code, "err-code-stable", "the two encoders disagree: {code} vs {code2}");
    if let Some(id) = id2 {
        ensure!(tok::drops(id) == 1, "ok-dropped", "into_int_result dropped the discarded payload {} times", tok::drops(id));
    }
    let d: Result<(), E> = from_int_result_empty(code2);
    ensure!(d.is_ok() == c.ok, "decode-variant", "from_int_result_empty({code2}) gave the wrong variant");
    Ok(())
}

pub fn check(c: &Case) -> CaseResult {
    let (r, rep) = tracked_confirmed(|| {
        macro_rules! with_err {
            ($t:ty) => {
                match c.err % 5 {
                    0 | 1 => one::<$t, std::io::Error>(c),
                    2 => one::<$t, ()>(c),
                    3 => one::<$t, std::fmt::Error>(c),
                    _ => one::<$t, UserErr>(c),
                }
            };
        }
        match c.payload % 3 {
            0 => with_err!(()),
            1 => with_err!(u64),
            _ => with_err!(HeapTok),
        }
    });
    r?;
    let bad = tok::mismatches(|_| 1);
    ensure!(bad.is_empty(), "payload-drop-count", "tokens with drop count != 1: {:?}", &bad[..bad.len().min(4)]);
    if !rep.clean() {
        fail!(if rep.misuses.is_empty() { "leak" } else { "alloc-misuse" }, "{}", rep.describe());
    }
    Ok(Info::new(!c.ok || c.payload % 3 == 2)
        .class(if c.ok { "Ok" } else { "Err" })
        .class(format!("err{}", c.err % 5))
        .class(format!("payload{}", c.payload % 3)))
}

fn sweep_codes(ctx: &Ctx, n_random: u64) {
    // all edge codes + a deterministic pseudo-random stream of i32 codes
    let mut codes: Vec<i32> = vec![0, 1, -1, 2, i32::MIN, i32::MAX, i32::MIN + 1, i32::MAX - 1, 0xffff, 0x10000, -0xffff, 0xfffe, 255, 256, 4095, 11, 32, 104];
    codes.extend(-300..300);
    let mut x = verifkit::mix_seed(ctx.args.seed, "C13/codes");
    for _ in 0..n_random {
        x ^= x << 13;
        x ^= x >> 7;
        x ^= x << 17;
        codes.push(x as i32);
    }
    codes.sort_unstable();
    codes.dedup(); // distinct by construction
    let mut evals = 0u64;
    for (k, code) in codes.iter().enumerate() {
        let c = Case { err: 0, payload: 1, ok: false, code: *code, val: 5, route: (k % 2) as u8 };
        let r = one::<u64, std::io::Error>(&c).and_then(|_| {
            // "no error ever encodes to 0" + "a non-zero OS code survives unchanged"
            let e = std::io::Error::from_raw_os_error(*code);
            let enc = e.into_int_err().get();
            ensure!(enc != 0, "encodes-to-zero", "io error with OS code {code} encodes to 0");
            if *code != 0 {
                ensure!(enc == *code, "os-code-changed", "OS code {code} encoded as {enc}");
                let back = std::io::Error::from_int_err(NonZeroI32::new(enc).unwrap());
                ensure!(back.raw_os_error() == Some(*code), "os-code-changed", "OS code {code} decoded as {:?}", back.raw_os_error());
            }
            Ok(())
        });
        match r {
            Ok(()) => evals += 1,
            Err(f) => {
                ctx.violation("os-codes", &c, f);
                return;
            }
        }
    }
    ctx.bulk("os-codes", evals, evals, &[], vec![json!({"code": codes[2]}), json!({"code": codes[codes.len() - 1]})]);
}

// ---------------------------------------------------------------------------------------------
// the generated half: #[int_result] methods of a #[cglue_trait], called through opaque objects
// and through the raw vtable entries (what a C caller sees)

pub mod wrapped {
    use super::{UserErr, POISON};
    use cglue::prelude::v1::*;
    use cglue::trait_group::GetContainer;
    use proptest::prelude::*;
    use serde::{Deserialize, Serialize};
    use std::mem::MaybeUninit;
    use std::num::NonZeroI32;
    use verifkit::tok::{self, HeapTok};
    use verifkit::{ensure, fail, tracked_confirmed, CaseResult, Fail, Info};

    fn uerr(code: i32) -> UserErr {
        UserErr(NonZeroI32::new(code).unwrap_or(NonZeroI32::new(7).unwrap()))
    }
    fn ioerr(code: i32) -> std::io::Error {
        std::io::Error::from_raw_os_error(if code == 0 { 5 } else { code })
    }

    #[cglue_trait]
    #[int_result]
    pub trait IntRes {
        fn unit_user(&self, ok: bool, code: i32) -> Result<(), UserErr>;
        fn val_user(&self, ok: bool, code: i32, v: u64) -> Result<u64, UserErr>;
        fn unit_io(&mut self, ok: bool, code: i32) -> Result<(), std::io::Error>;
        fn val_io(&mut self, ok: bool, code: i32, v: u64) -> Result<u64, std::io::Error>;
        fn unit_unit(&self, ok: bool) -> Result<(), ()>;
        fn tok_user(&self, ok: bool, code: i32, val: u64) -> Result<HeapTok, UserErr>;
        #[no_int_result]
        fn plain(&self, ok: bool, code: i32, v: u64) -> Result<u64, i32>;
    }

    /// an error whose integer coding is lossy: it may only ever cross in full (as CResult)
    #[repr(C)]
    #[derive(Debug, Clone, Copy, PartialEq, Eq)]
    pub struct Lossy {
        pub code: i32,
        pub extra: u32,
    }
    impl cglue::result::IntError for Lossy {
        fn into_int_err(self) -> NonZeroI32 {
            NonZeroI32::new(self.code).unwrap_or(NonZeroI32::new(7).unwrap())
        }
        fn from_int_err(e: NonZeroI32) -> Self {
            Lossy { code: e.get(), extra: 0 }
        }
    }

    /// the same shapes on a trait that is not int_result as a whole; the plain methods before and
    /// after the attributed ones must stay plain
    #[cglue_trait]
    pub trait IntResMix {
        fn m_plain_first(&self, ok: bool, code: i32, extra: u32) -> Result<u64, Lossy>;
        #[int_result]
        fn m_unit_user(&self, ok: bool, code: i32) -> Result<(), UserErr>;
        #[int_result]
        fn m_val_io(&self, ok: bool, code: i32, v: u64) -> Result<u64, std::io::Error>;
        fn m_plain_last(&self, ok: bool, code: i32, extra: u32) -> Result<u64, Lossy>;
        #[int_result]
        fn m_fin_unit_user(self, ok: bool, code: i32) -> Result<(), UserErr>;
    }

    pub struct Imp(pub u64);
    impl IntRes for Imp {
        fn unit_user(&self, ok: bool, code: i32) -> Result<(), UserErr> {
            if ok { Ok(()) } else { Err(uerr(code)) }
        }
        fn val_user(&self, ok: bool, code: i32, v: u64) -> Result<u64, UserErr> {
            if ok { Ok(v ^ self.0) } else { Err(uerr(code)) }
        }
        fn unit_io(&mut self, ok: bool, code: i32) -> Result<(), std::io::Error> {
            self.0 = self.0.wrapping_add(1);
            if ok { Ok(()) } else { Err(ioerr(code)) }
        }
        fn val_io(&mut self, ok: bool, code: i32, v: u64) -> Result<u64, std::io::Error> {
            self.0 = self.0.wrapping_add(1);
            if ok { Ok(v ^ self.0) } else { Err(ioerr(code)) }
        }
        fn unit_unit(&self, ok: bool) -> Result<(), ()> {
            if ok { Ok(()) } else { Err(()) }
        }
        fn tok_user(&self, ok: bool, code: i32, val: u64) -> Result<HeapTok, UserErr> {
            if ok { Ok(HeapTok::new(val)) } else { Err(uerr(code)) }
        }
        fn plain(&self, ok: bool, code: i32, v: u64) -> Result<u64, i32> {
            if ok { Ok(v) } else { Err(code) }
        }
    }
    impl IntResMix for Imp {
        fn m_plain_first(&self, ok: bool, code: i32, extra: u32) -> Result<u64, Lossy> {
            if ok { Ok(self.0 ^ extra as u64) } else { Err(Lossy { code, extra }) }
        }
        fn m_plain_last(&self, ok: bool, code: i32, extra: u32) -> Result<u64, Lossy> {
            if ok { Ok(self.0 ^ extra as u64) } else { Err(Lossy { code, extra: extra ^ 1 }) }
        }
        fn m_unit_user(&self, ok: bool, code: i32) -> Result<(), UserErr> {
            if ok { Ok(()) } else { Err(uerr(code)) }
        }
        fn m_val_io(&self, ok: bool, code: i32, v: u64) -> Result<u64, std::io::Error> {
            if ok { Ok(v ^ self.0) } else { Err(ioerr(code)) }
        }
        fn m_fin_unit_user(self, ok: bool, code: i32) -> Result<(), UserErr> {
            if ok { Ok(()) } else { Err(uerr(code)) }
        }
    }

    #[derive(Debug, Clone, Serialize, Deserialize)]
    pub struct WCase {
        /// 0 unit_user 1 val_user 2 unit_io 3 val_io 4 unit_unit 5 tok_user 6 plain 7 m_unit_user 8 m_val_io 9 m_fin_unit_user
        pub method: u8,
        pub ok: bool,
        pub code: i32,
        pub v: u64,
        /// 0 boxed, 1 boxed with arc context, 2 by mutable reference
        pub container: u8,
        /// call the vtable entry itself (C view) instead of the trait method of the opaque object
        pub raw: bool,
    }

    fn io_sig<T: PartialEq + Clone>(r: &Result<T, std::io::Error>) -> Result<T, Option<i32>> {
        match r {
            Ok(v) => Ok(v.clone()),
            Err(e) => Err(e.raw_os_error()),
        }
    }

    fn through<O: IntRes>(o: &mut O, d: &mut Imp, c: &WCase) -> Result<(), Fail> {
        match c.method % 7 {
            0 => {
                let (w, r) = (o.unit_user(c.ok, c.code), d.unit_user(c.ok, c.code));
                ensure!(w == r, "generated-wrapper", "unit_user({}, {}): through the object {:?}, direct {:?}", c.ok, c.code, w, r);
            }
            1 => {
                let (w, r) = (o.val_user(c.ok, c.code, c.v), d.val_user(c.ok, c.code, c.v));
                ensure!(w == r, "generated-wrapper", "val_user({}, {}): through the object {:?}, direct {:?}", c.ok, c.code, w, r);
            }
            2 => {
                let (w, r) = (o.unit_io(c.ok, c.code), d.unit_io(c.ok, c.code));
                ensure!(io_sig(&w) == io_sig(&r), "generated-wrapper", "unit_io({}, {}): through the object {:?}, direct {:?}", c.ok, c.code, w, r);
            }
            3 => {
                let (w, r) = (o.val_io(c.ok, c.code, c.v), d.val_io(c.ok, c.code, c.v));
                ensure!(io_sig(&w) == io_sig(&r), "generated-wrapper", "val_io({}, {}): through the object {:?}, direct {:?}", c.ok, c.code, w, r);
            }
            4 => {
                let (w, r) = (o.unit_unit(c.ok), d.unit_unit(c.ok));
                ensure!(w == r, "generated-wrapper", "unit_unit({}): through the object {:?}, direct {:?}", c.ok, w, r);
            }
            5 => {
                let before = tok::issued();
                let w = o.tok_user(c.ok, c.code, c.v);
                let made = tok::issued() - before;
                ensure!(made == c.ok as usize, "generated-wrapper", "tok_user({}): {} success values were created", c.ok, made);
                match (&w, c.ok) {
                    (Ok(t), true) => ensure!(t.id() as usize == before && t.val() == c.v, "generated-wrapper", "tok_user: a different value came back"),
                    (Err(e), false) => ensure!(*e == uerr(c.code), "generated-wrapper", "tok_user({}): error decoded as {:?}", c.code, e),
                    _ => fail!("generated-wrapper", "tok_user({}, {}): variant changed: {:?}", c.ok, c.code, w.as_ref().map(|_| ())),
                }
                drop(w);
                if c.ok {
                    ensure!(tok::drops(before as u32) == 1, "generated-wrapper", "tok_user: success value dropped {} times", tok::drops(before as u32));
                }
            }
            _ => {
                let (w, r) = (o.plain(c.ok, c.code, c.v), d.plain(c.ok, c.code, c.v));
                ensure!(w == r, "generated-wrapper", "plain({}, {}): through the object {:?}, direct {:?}", c.ok, c.code, w, r);
            }
        }
        Ok(())
    }

    /// the entries themselves, as C sees them: status code + output slot
    fn raw_entries<'a, O>(o: &mut O, c: &WCase) -> Result<(), Fail>
    where
        O: GetContainer + cglue::trait_group::GetVtblBase<IntResVtbl<'a, <O as GetContainer>::ContType>>,
        <O as GetContainer>::ContType: 'a,
    {
        let vt = o.get_vtbl_base();
        macro_rules! slot_rule {
            ($code:expr, $slot:expr, $t:ty, $name:expr) => {{
                let bytes = unsafe { std::slice::from_raw_parts($slot.as_ptr() as *const u8, std::mem::size_of::<$t>()) };
                ensure!(($code == 0) == c.ok, "generated-zero-iff-ok", "vtable entry {} returned {} for {}", $name, $code, if c.ok { "Ok" } else { "Err" });
                if !c.ok {
                    ensure!(bytes.iter().all(|b| *b == POISON), "generated-slot-touched", "vtable entry {} wrote to the output slot although it reports an error", $name);
                }
            }};
        }
        match c.method % 7 {
            0 => {
                let code = unsafe { (vt.unit_user())(o.ccont_ref(), c.ok, c.code) };
                ensure!((code == 0) == c.ok, "generated-zero-iff-ok", "vtable entry unit_user returned {} for {}", code, if c.ok { "Ok" } else { "Err" });
                if !c.ok {
                    ensure!(code == uerr(c.code).0.get(), "generated-code", "vtable entry unit_user returned {} for the error code {}", code, uerr(c.code).0);
                }
            }
            1 => {
                let mut slot = MaybeUninit::<u64>::uninit();
                unsafe { std::ptr::write_bytes(slot.as_mut_ptr() as *mut u8, POISON, 8) };
                let code = unsafe { (vt.val_user())(o.ccont_ref(), c.ok, c.code, c.v, &mut slot) };
                slot_rule!(code, slot, u64, "val_user");
                if !c.ok {
                    ensure!(code == uerr(c.code).0.get(), "generated-code", "vtable entry val_user returned {} for the error code {}", code, uerr(c.code).0);
                }
            }
            2 => {
                let code = unsafe { (vt.unit_io())(o.ccont_mut(), c.ok, c.code) };
                ensure!((code == 0) == c.ok, "generated-zero-iff-ok", "vtable entry unit_io returned {} for {}", code, if c.ok { "Ok" } else { "Err" });
                if !c.ok && c.code != 0 {
                    ensure!(code == c.code, "generated-code", "vtable entry unit_io returned {} for the OS error {}", code, c.code);
                }
            }
            3 => {
                let mut slot = MaybeUninit::<u64>::uninit();
                unsafe { std::ptr::write_bytes(slot.as_mut_ptr() as *mut u8, POISON, 8) };
                let code = unsafe { (vt.val_io())(o.ccont_mut(), c.ok, c.code, c.v, &mut slot) };
                slot_rule!(code, slot, u64, "val_io");
                if !c.ok && c.code != 0 {
                    ensure!(code == c.code, "generated-code", "vtable entry val_io returned {} for the OS error {}", code, c.code);
                }
            }
            4 => {
                let code = unsafe { (vt.unit_unit())(o.ccont_ref(), c.ok) };
                ensure!((code == 0) == c.ok, "generated-zero-iff-ok", "vtable entry unit_unit returned {} for {}", code, if c.ok { "Ok" } else { "Err" });
            }
            5 => {
                let before = tok::issued();
                let mut slot = MaybeUninit::<HeapTok>::uninit();
                unsafe { std::ptr::write_bytes(slot.as_mut_ptr() as *mut u8, POISON, std::mem::size_of::<HeapTok>()) };
                let code = unsafe { (vt.tok_user())(o.ccont_ref(), c.ok, c.code, c.v, &mut slot) };
                slot_rule!(code, slot, HeapTok, "tok_user");
                let made = tok::issued() - before;
                if code == 0 {
                    ensure!(made == 1, "generated-slot-value", "vtable entry tok_user reports success and created {} values", made);
                    let t = unsafe { slot.assume_init() };
                    ensure!(t.id() as usize == before && t.val() == c.v, "generated-slot-value", "vtable entry tok_user put a different value into the slot");
                    ensure!(tok::drops(before as u32) == 0, "generated-slot-value", "the success value was dropped before the caller took it");
                    drop(t);
                    ensure!(tok::drops(before as u32) == 1, "generated-slot-value", "tok_user: success value dropped {} times", tok::drops(before as u32));
                } else {
                    ensure!(made == 0 || tok::drops(before as u32) == 1, "generated-slot-value", "a value created on the error path was not dropped");
                }
            }
            _ => {}
        }
        Ok(())
    }

    fn mix<O: IntResMix>(o: O, d: Imp, c: &WCase) -> Result<(), Fail> {
        // the plain (CResult) methods around the integer-coded ones keep the whole error value
        let extra = (c.v >> 7) as u32 | 1;
        let (w, r) = (o.m_plain_first(c.ok, c.code, extra), d.m_plain_first(c.ok, c.code, extra));
        ensure!(w == r, "generated-wrapper", "m_plain_first({}, {}, {extra}): through the object {:?}, direct {:?}", c.ok, c.code, w, r);
        let (w, r) = (o.m_plain_last(c.ok, c.code, extra), d.m_plain_last(c.ok, c.code, extra));
        ensure!(w == r, "generated-wrapper", "m_plain_last({}, {}, {extra}): a plain Result declared after #[int_result] methods: through the object {:?}, direct {:?}", c.ok, c.code, w, r);
        match c.method % 3 {
            0 => {
                let (w, r) = (o.m_unit_user(c.ok, c.code), d.m_unit_user(c.ok, c.code));
                ensure!(w == r, "generated-wrapper", "m_unit_user({}, {}): through the object {:?}, direct {:?}", c.ok, c.code, w, r);
            }
            1 => {
                let (w, r) = (o.m_val_io(c.ok, c.code, c.v), d.m_val_io(c.ok, c.code, c.v));
                ensure!(io_sig(&w) == io_sig(&r), "generated-wrapper", "m_val_io({}, {}): through the object {:?}, direct {:?}", c.ok, c.code, w, r);
            }
            _ => {
                let (w, r) = (o.m_fin_unit_user(c.ok, c.code), d.m_fin_unit_user(c.ok, c.code));
                ensure!(w == r, "generated-wrapper", "m_fin_unit_user({}, {}): through the object {:?}, direct {:?}", c.ok, c.code, w, r);
            }
        }
        Ok(())
    }

    pub fn check(c: &WCase) -> CaseResult {
        let (r, rep) = tracked_confirmed(|| -> Result<(), Fail> {
            let seed = c.v.rotate_left(7);
            let mut direct = Imp(seed);
            if c.method % 10 >= 7 {
                return match c.container % 2 {
                    0 => mix(trait_obj!(Imp(seed) as IntResMix), direct, c),
                    _ => {
                        let ctx = CArc::from(5u8);
                        mix(trait_obj!((Imp(seed), ctx) as IntResMix), direct, c)
                    }
                };
            }
            match c.container % 3 {
                0 => {
                    let mut o = trait_obj!(Imp(seed) as IntRes);
                    if c.raw { raw_entries(&mut o, c) } else { through(&mut o, &mut direct, c) }
                }
                1 => {
                    let ctx = CArc::from(5u8);
                    let mut o = trait_obj!((Imp(seed), ctx) as IntRes);
                    if c.raw { raw_entries(&mut o, c) } else { through(&mut o, &mut direct, c) }
                }
                _ => {
                    let mut imp = Imp(seed);
                    let mut o = trait_obj!(&mut imp as IntRes);
                    if c.raw { raw_entries(&mut o, c) } else { through(&mut o, &mut direct, c) }
                }
            }
        });
        r?;
        if !rep.clean() {
            fail!(if rep.misuses.is_empty() { "generated-leak" } else { "alloc-misuse" }, "{}", rep.describe());
        }
        Ok(Info::new(!c.ok)
            .class(format!("generated:method{}", c.method % 10))
            .class(if c.raw { "generated:raw-entry" } else { "generated:trait-call" })
            .class(if c.ok { "generated:Ok" } else { "generated:Err" }))
    }

    pub fn strategy() -> impl Strategy<Value = WCase> {
        (
            0u8..10,
            any::<bool>(),
            prop_oneof![2 => any::<i32>(), 2 => -40i32..40, 1 => prop::sample::select(vec![0, 1, -1, i32::MIN, i32::MAX, 0xffff, 2, 11])],
            any::<u64>(),
            0u8..3,
            any::<bool>(),
        )
            .prop_map(|(method, ok, code, v, container, raw)| WCase { method, ok, code, v, container, raw })
    }
}

pub fn strategy() -> impl Strategy<Value = Case> {
    (
        0u8..5,
        0u8..3,
        any::<bool>(),
        prop_oneof![2 => any::<i32>(), 1 => prop::sample::select(vec![0, 1, -1, i32::MIN, i32::MAX, 0xffff, 2, 11])],
        any::<u64>(),
        0u8..2,
    )
        .prop_map(|(err, payload, ok, code, val, route)| Case { err, payload, ok, code, val, route })
}

/// An error type whose encoder can unwind (the documented `NonZeroI32::new(code).unwrap()` idiom
/// meeting a code of 0): the error value is still destroyed exactly once and the slot stays untouched.
pub mod unwinding {
    use super::*;

    pub struct FragileErr {
        pub tok: HeapTok,
        pub code: i32,
    }
    impl IntError for FragileErr {
        fn into_int_err(self) -> NonZeroI32 {
            NonZeroI32::new(self.code).expect("an error code of 0")
        }
        fn from_int_err(err: NonZeroI32) -> Self {
            FragileErr { tok: HeapTok::new(7), code: err.get() }
        }
    }

    #[derive(Debug, Clone, Serialize, Deserialize)]
    pub struct UCase {
        pub code: i32,
        pub with_slot: bool,
    }

    pub fn check(c: &UCase) -> CaseResult {
        let (r, rep) = tracked_confirmed(|| -> Result<bool, Fail> {
            let e = FragileErr { tok: HeapTok::new(1), code: c.code };
            let id = e.tok.id();
            let mut slot = MaybeUninit::<HeapTok>::uninit();
            unsafe { std::ptr::write_bytes(slot.as_mut_ptr() as *mut u8, POISON, std::mem::size_of::<HeapTok>()) };
            let out = std::panic::catch_unwind(std::panic::AssertUnwindSafe(|| {
                if c.with_slot {
                    into_int_out_result::<HeapTok, FragileErr>(Err(e), &mut slot)
                } else {
                    into_int_result::<HeapTok, FragileErr>(Err(e))
                }
            }));
            match out {
                Ok(code) => ensure!(c.code != 0 && code == c.code, "code", "error code {} encoded as {code}", c.code),
                Err(_) => ensure!(c.code == 0, "panic", "the encoder unwound for the non-zero code {}", c.code),
            }
            ensure!(tok::drops(id) == 1, "err-drop-count", "the error value was destroyed {} times (its encoder {})", tok::drops(id), if c.code == 0 { "unwound" } else { "returned" });
            let bytes = unsafe { std::slice::from_raw_parts(slot.as_ptr() as *const u8, std::mem::size_of::<HeapTok>()) };
            ensure!(bytes.iter().all(|b| *b == POISON), "slot-touched", "the output slot was written although the result was Err");
            Ok(c.code == 0)
        });
        let nt = r?;
        if !rep.clean() {
            fail!(if rep.misuses.is_empty() { "leak" } else { "alloc-misuse" }, "{}", rep.describe());
        }
        Ok(Info::new(nt).class(if c.code == 0 { "encoder unwinds" } else { "encoder returns" }))
    }

    pub fn strategy() -> impl Strategy<Value = UCase> {
        (prop_oneof![Just(0i32), any::<i32>()], any::<bool>()).prop_map(|(code, with_slot)| UCase { code, with_slot })
    }
}

pub fn run(ctx: &Ctx) -> i32 {
    if !ctx.is_replay() {
        for code in [0, 1, -1, i32::MIN] {
            for with_slot in [false, true] {
                if !ctx.eval("encoder-unwinds", &unwinding::UCase { code, with_slot }, unwinding::check) {
                    return ctx.finish(RULE, &[], false);
                }
            }
        }
    }
    ctx.run("encoder-unwinds", if ctx.is_replay() { 1 } else { 200 }, unwinding::strategy(), unwinding::check);
    if ctx.is_replay() {
        ctx.run("encode-decode", 1, strategy(), check);
        ctx.run("os-codes", 1, strategy(), check);
        ctx.run("generated", 1, wrapped::strategy(), wrapped::check);
    } else {
        // generated wrappers: the full product of methods x outcome x edge codes x containers x route
        for method in 0..10u8 {
            for ok in [true, false] {
                for code in [0, 1, -1, 2, 0xffff, i32::MIN, i32::MAX, 13, -5] {
                    for container in 0..3u8 {
                        for raw in [false, true] {
                            let c = wrapped::WCase { method, ok, code, v: 0x1234_5678_9abc, container, raw };
                            if !ctx.eval("generated", &c, wrapped::check) {
                                return ctx.finish(RULE, &[], false);
                            }
                        }
                    }
                }
            }
        }
        ctx.run("generated", ctx.n(20_000, 300_000), wrapped::strategy(), wrapped::check);
        if ctx.failed() {
            return ctx.finish(RULE, &[], false);
        }
        // the full product of shapes, deterministically
        for err in 0..5u8 {
            for payload in 0..3u8 {
                for ok in [true, false] {
                    for code in [0, 1, -1, 0xffff, i32::MIN, i32::MAX, 13] {
                        for route in 0..2u8 {
                            let c = Case { err, payload, ok, code, val: 77, route };
                            if !ctx.eval("encode-decode", &c, check) {
                                return ctx.finish(RULE, &[], false);
                            }
                        }
                    }
                }
            }
        }
        ctx.run("encode-decode", ctx.n(30_000, 500_000), strategy(), check);
        if !ctx.failed() {
            sweep_codes(ctx, ctx.n(300_000, 5_000_000) as u64);
        }
    }
    ctx.finish(RULE, &["the output slot is pre-filled with a byte pattern; 'untouched' means byte-identical afterwards"], false)
}

const RULE: &str = "Result<T,E> with T in {(), u64, droppable heap token} x E in {io::Error from raw OS code, io::Error of a non-OS kind, (), fmt::Error, user IntError} x {Ok, Err} x {free functions, IntResult methods}: full product with edge codes enumerated, then random; plus all edge OS codes and a long pseudo-random stream of i32 codes through encode->decode. Oracle: code==0 iff Ok; on Ok the slot holds the very value (token identity) and it is dropped exactly once after decoding; on Err the poisoned slot is byte-identical afterwards and no value was created or dropped; decoding non-zero yields Err with the same OS code / user code; no shipped error encodes to 0. GENERATED half: a #[cglue_trait] with #[int_result] methods (Ok type (), u64, droppable token; error type user IntError with many codes, io::Error, (); by-ref, by-mut and consuming receivers; trait-level and method-level attribute; #[no_int_result] control) called through boxed / boxed+context / by-mut-reference opaque objects and compared with the direct call (variant AND error code), and the vtable entries called directly the way C does: status 0 iff Ok, the status is the error's own code, poisoned output slot untouched on Err, holding the very value on Ok (dropped once). UNWINDING encoder: a user error type whose into_int_err panics for the code 0 - the error value is still destroyed exactly once and the slot stays untouched. Non-trivial = Err, or Ok with a droppable payload";
