//! C06 / C07 — lifecycle and context histories over a hand-written three-level trait family.
//!
//! One history is executed over a pool of opaque objects that all descend from roots sharing
//! one reference-counted context. After every step the context count must equal
//! `held by the harness + live context holders (+ known ret_tmp leak)`, and at the end every
//! payload token must have been dropped exactly once with a balanced allocator.
use cglue::prelude::v1::*;
use cglue::*;
use proptest::prelude::*;
use serde::{Deserialize, Serialize};
use std::sync::atomic::{AtomicU64, Ordering::SeqCst};
use std::sync::{Arc, Mutex};
use verifkit::tok::{self, HeapTok};
use verifkit::{ensure, fail, pick, tracked_confirmed, CaseResult, Ctx, Fail, Info};

pub const K_RETTMP: &str = "C07:borrowed-wrapped-return:ctx-clone-not-released";

// ---- the context payload: records where it is dropped ------------------------------------------

// over-aligned: the reference-count header of its Arc is then NOT where a clone/drop function
// instantiated for the erased type (c_void) would look for it, so a derived object that does not
// use the context's own stored functions corrupts the count visibly
#[repr(align(64))]
pub struct Payload {
    pub tok: HeapTok,
    pub drop_site: Arc<Mutex<Option<String>>>,
    pub capture: Arc<std::sync::atomic::AtomicBool>,
}

/// payload of the second context (replacement children carry it)
pub struct SidePayload {
    pub tok: HeapTok,
}

/// set when the context payload of the running case has been destroyed; every implementor of the
/// family lives inside an object that carries the context, so none of them may be destroyed
/// after that point (the context would not have outlived the object)
static CTX_GONE: std::sync::atomic::AtomicBool = std::sync::atomic::AtomicBool::new(false);
static OUTLIVED_CTX: AtomicU64 = AtomicU64::new(0);

fn instance_dropped() {
    if CTX_GONE.load(SeqCst) {
        OUTLIVED_CTX.fetch_add(1, SeqCst);
    }
}

impl Drop for Payload {
    fn drop(&mut self) {
        CTX_GONE.store(true, SeqCst);
        if self.capture.load(SeqCst) {
            let _g = verifkit::alloc::Exempt::new();
            let bt = std::backtrace::Backtrace::force_capture().to_string();
            *self.drop_site.lock().unwrap() = Some(bt);
        }
    }
}

// ---- the family ------------------------------------------------------------------------------

#[cglue_trait]
pub trait Lf {
    fn lf_val(&self) -> u64;
    fn lf_set(&mut self, v: u64);
}

#[cglue_trait]
pub trait LfRo {
    fn lfro_val(&self) -> u64;
}

#[cglue_trait]
pub trait Md {
    #[wrap_with_obj(Lf)]
    type L: Lf + 'static;
    fn md_val(&self) -> u64;
    fn md_leaf(&self) -> Self::L;
    fn md_done(self) -> u64;
}

#[cglue_trait]
pub trait MdX {
    fn mdx_val(&self) -> u64;
}

cglue_trait_group!(MdGroup, Md, { MdX, Clone });

/// Root with consuming methods (boxed containers only).
#[cglue_trait]
pub trait Rt {
    #[wrap_with_obj(Md)]
    type MO: Md + 'static;
    #[wrap_with_group(MdGroup)]
    type MG: Md + 'static;
    #[wrap_with_obj_ref(LfRo)]
    type LR: LfRo + 'static;
    #[wrap_with_obj_mut(Lf)]
    type LM: Lf + 'static;
    #[wrap_with_group_ref(LfRoGroup)]
    type GR: LfRo + 'static;

    fn rt_val(&self) -> u64;
    fn rt_mid(&self) -> Self::MO;
    fn rt_mid_group(&self) -> Self::MG;
    fn rt_leaf_ref(&self) -> &Self::LR;
    fn rt_leaf_mut(&mut self) -> &mut Self::LM;
    fn rt_leaf_group_ref(&self) -> &Self::GR;
    fn rt_into_mid(self) -> Self::MO;
    fn rt_finish(self) -> u64;
    /// consuming, fallible, wrapped success value, with a C result (declared before the
    /// integer-coded one: its error type has no integer coding)
    fn rt_try_mid_plain(self, fail: bool) -> Result<Self::MO, u8>;
    /// the same, integer-coded
    #[int_result]
    fn rt_try_mid(self, fail: bool) -> Result<Self::MO, ()>;
}

/// consuming method returning an *unwrapped* associated type
#[cglue_trait]
pub trait Uw {
    type R;
    fn uw_val(&self) -> u64;
    fn uw_take(self) -> Self::R;
}

cglue_trait_group!(LfRoGroup, LfRo, { MdX });

#[cglue_trait]
pub trait RtX {
    fn rtx_val(&self) -> u64;
}

cglue_trait_group!(RtGroup, Rt, { RtX, Clone });

// implementors: every value owns a heap token
pub struct LfI {
    t: HeapTok,
    v: AtomicU64,
    /// not inside an object that carries the case's main context (a replacement leaf owned by the harness)
    detached: bool,
}
impl LfI {
    fn new(v: u64) -> Self {
        LfI { t: HeapTok::new(v), v: AtomicU64::new(v), detached: false }
    }
    fn detached(v: u64) -> Self {
        LfI { t: HeapTok::new(v), v: AtomicU64::new(v), detached: true }
    }
}
impl Lf for LfI {
    fn lf_val(&self) -> u64 {
        assert!(self.t.val() < u64::MAX);
        self.v.load(SeqCst)
    }
    fn lf_set(&mut self, v: u64) {
        self.v.store(v, SeqCst)
    }
}
impl LfRo for LfI {
    fn lfro_val(&self) -> u64 {
        self.v.load(SeqCst)
    }
}
impl MdX for LfI {
    fn mdx_val(&self) -> u64 {
        self.v.load(SeqCst) + 1
    }
}
cglue_impl_group!(LfI, LfRoGroup, { MdX });

// a group whose implementor leaves optional traits out: casts to them must be refused - and a
// refused consuming cast must still release everything the consumed object held
cglue_trait_group!(LfPartGroup, Lf, { LfRo, MdX });
cglue_impl_group!(LfI, LfPartGroup, { LfRo });
impl Drop for LfI {
    fn drop(&mut self) {
        if !self.detached {
            instance_dropped();
        }
    }
}
impl Drop for MdI {
    fn drop(&mut self) {
        instance_dropped();
    }
}
impl Drop for RtI {
    fn drop(&mut self) {
        instance_dropped();
    }
}

pub struct MdI {
    t: HeapTok,
    v: u64,
}
impl Clone for MdI {
    fn clone(&self) -> Self {
        MdI { t: HeapTok::new(self.v), v: self.v }
    }
}
impl Md for MdI {
    type L = LfI;
    fn md_val(&self) -> u64 {
        assert_eq!(self.t.val(), self.v);
        self.v
    }
    fn md_leaf(&self) -> LfI {
        LfI::new(self.v * 3 + 1)
    }
    fn md_done(self) -> u64 {
        self.v + 7
    }
}
impl MdX for MdI {
    fn mdx_val(&self) -> u64 {
        self.v + 2
    }
}
cglue_impl_group!(MdI, MdGroup, { MdX, Clone });

pub struct RtI {
    t: HeapTok,
    v: u64,
    lr: LfI,
    lm: LfI,
}
impl RtI {
    fn new(v: u64) -> Self {
        RtI { t: HeapTok::new(v), v, lr: LfI::new(v + 100), lm: LfI::new(v + 200) }
    }
}
impl Clone for RtI {
    fn clone(&self) -> Self {
        RtI::new(self.v)
    }
}
impl Rt for RtI {
    type MO = MdI;
    type MG = MdI;
    type LR = LfI;
    type LM = LfI;
    type GR = LfI;
    fn rt_val(&self) -> u64 {
        assert_eq!(self.t.val(), self.v);
        self.v
    }
    fn rt_mid(&self) -> MdI {
        MdI { t: HeapTok::new(self.v * 2), v: self.v * 2 }
    }
    fn rt_mid_group(&self) -> MdI {
        MdI { t: HeapTok::new(self.v * 2 + 1), v: self.v * 2 + 1 }
    }
    fn rt_leaf_ref(&self) -> &LfI {
        &self.lr
    }
    fn rt_leaf_mut(&mut self) -> &mut LfI {
        &mut self.lm
    }
    fn rt_leaf_group_ref(&self) -> &LfI {
        &self.lr
    }
    fn rt_into_mid(self) -> MdI {
        MdI { t: HeapTok::new(self.v * 5), v: self.v * 5 }
    }
    fn rt_finish(self) -> u64 {
        self.v + 9
    }
    fn rt_try_mid(self, fail: bool) -> Result<MdI, ()> {
        if fail {
            Err(())
        } else {
            Ok(MdI { t: HeapTok::new(self.v * 5), v: self.v * 5 })
        }
    }
    fn rt_try_mid_plain(self, fail: bool) -> Result<MdI, u8> {
        if fail {
            Err(self.v as u8)
        } else {
            Ok(MdI { t: HeapTok::new(self.v * 5), v: self.v * 5 })
        }
    }
}
impl Uw for RtI {
    type R = u64;
    fn uw_val(&self) -> u64 {
        self.v
    }
    fn uw_take(self) -> u64 {
        self.v + 11
    }
}
impl RtX for RtI {
    fn rtx_val(&self) -> u64 {
        self.v + 3
    }
}
cglue_impl_group!(RtI, RtGroup, { RtX, Clone });

// ---- pool --------------------------------------------------------------------------------------

type Cx = CArc<cglue::trait_group::c_void>;

pub enum Obj<'a> {
    Root(RtBase<'a, CBox<'a, cglue::trait_group::c_void>, Cx>, u64),
    RootG(RtGroup<'a, CBox<'a, cglue::trait_group::c_void>, Cx>, u64),
    Mid(MdBase<'a, CBox<'a, cglue::trait_group::c_void>, Cx>, u64),
    MidG(MdGroup<'a, CBox<'a, cglue::trait_group::c_void>, Cx>, u64),
    Leaf(LfBase<'a, CBox<'a, cglue::trait_group::c_void>, Cx>, u64),
    Uw(UwBase<'a, CBox<'a, cglue::trait_group::c_void>, Cx, u64>, u64),
    Part(LfPartGroup<'a, CBox<'a, cglue::trait_group::c_void>, Cx>, u64),
}

#[derive(Debug, Clone, Serialize, Deserialize, PartialEq)]
pub enum Op {
    NewRoot(bool, u8),
    NewUw(u8),
    /// fallible consuming call: (object, fail, plain-result)
    TryMid(u16, bool, bool),
    Call(u16),
    MidObj(u16),
    MidGroup(u16),
    LeafOf(u16),
    LeafRef(u16),
    LeafMut(u16),
    /// replace the mutably borrowed wrapped child by another object (through the `&mut`) and drop the old one
    ReplaceLeafMut(u16),
    LeafGroupRef(u16),
    CloneOf(u16),
    /// cast a group to a subset (bit0: extra trait, bit1: Clone) and back
    CastBack(u16, u8),
    /// cast via `into` (final form); the result is used and dropped
    IntoFinal(u16, u8),
    /// a leaf group object whose implementor enables only one of two optional traits
    NewPart(u8),
    /// final cast of such an object: refused (0: the absent trait, 1: a present and the absent one) or granted (2)
    PartInto(u16, u8),
    IntoMid(u16),
    Finish(u16),
    /// the object consumed holds the last reference to the context; the argument selects the
    /// consuming method (scalar, failing int-coded wrapped, failing plain wrapped, unwrapped assoc)
    FinishLast(u8),
    Drop(u16),
}

#[derive(Debug, Clone, Serialize, Deserialize)]
pub struct Case {
    pub ops: Vec<Op>,
    pub drop_order: Vec<u16>,
}

#[derive(Default)]
struct St {
    leak: usize,
    outlived: bool,
    consumed_last: bool,
    transfers: u32,
    derived: u32,
    borrowed: u32,
    replaced: u32,
    side_tok: u32,
}

fn holders(pool: &[Obj]) -> usize {
    pool.len()
}

fn count_check(vc: &Ctx, arc: &Option<Arc<Payload>>, weak: &std::sync::Weak<Payload>, pool: &[Obj], st: &St, when: &str) -> Result<(), Fail> {
    let actual = weak.strong_count();
    let base = arc.is_some() as usize + holders(pool);
    if actual == base {
        return Ok(());
    }
    if st.leak > 0 && actual == base + st.leak && vc.known(K_RETTMP) {
        return Ok(());
    }
    Err(Fail::new(
        "C07:ctx-count",
        format!("{when}: context count {actual}, expected {base} = harness {} + {} live objects carrying the context ({} borrowed wrapped returns so far)", arc.is_some() as usize, holders(pool), st.leak),
    ))
}

fn body(vc: &Ctx, case: &Case) -> Result<St, Fail> {
    CTX_GONE.store(false, SeqCst);
    OUTLIVED_CTX.store(0, SeqCst);
    let r = body_inner(vc, case);
    let n = OUTLIVED_CTX.load(SeqCst);
    CTX_GONE.store(false, SeqCst);
    if r.is_ok() && n > 0 {
        return Err(Fail::new("C07:instance-outlived-context", format!("{n} implementor values were destroyed after the context payload: an object released its context before its instance")));
    }
    r
}

fn body_inner(vc: &Ctx, case: &Case) -> Result<St, Fail> {
    let drop_site = Arc::new(Mutex::new(None));
    let capture = Arc::new(std::sync::atomic::AtomicBool::new(false));
    let mut arc = Some(Arc::new(Payload { tok: HeapTok::new(0xC7), drop_site: drop_site.clone(), capture: capture.clone() }));
    let weak = Arc::downgrade(arc.as_ref().unwrap());
    let ptok = arc.as_ref().unwrap().tok.id();
    // a second, unrelated context for replacement children, and the leaves they borrow (declared
    // before the pool: they outlive every object)
    let side = Arc::new(SidePayload { tok: HeapTok::new(0x51DE) });
    // (the wrapped child type borrows for 'static: the replacement leaves are leaked boxes that
    // are taken back after every object is gone)
    let mut spare_raw: Vec<*mut LfI> = Vec::new();
    let mut pool: Vec<Obj> = Vec::new();
    let mut st = St::default();
    st.side_tok = side.tok.id();
    // the context handle reaches the object by one of several routes (all must give a handle that
    // clones and releases through the functions of the module that made it)
    let ctx_no = std::cell::Cell::new(0u32);
    let mk_ctx = |a: &Arc<Payload>| -> Cx {
        ctx_no.set(ctx_no.get() + 1);
        let c = CArc::<Payload>::from(a.clone());
        match ctx_no.get() % 4 {
            1 => match c.transpose() {
                Some(s) => s.transpose().into_opaque(),
                None => unreachable!(),
            },
            2 => CArc::<Payload>::from(c.transpose()).into_opaque(),
            3 => {
                let d = c.clone();
                drop(c);
                d.into_opaque()
            }
            _ => c.into_opaque(),
        }
    };
    for (step, op) in case.ops.iter().enumerate() {
        let n = pool.len();
        let when = format!("step {step} {op:?}");
        match op {
            Op::NewRoot(group, v) => {
                if let Some(a) = &arc {
                    let v = *v as u64 + 1;
                    if *group {
                        pool.push(Obj::RootG(group_obj!((RtI::new(v), mk_ctx(a)) as RtGroup), v));
                    } else {
                        pool.push(Obj::Root(trait_obj!((RtI::new(v), mk_ctx(a)) as Rt), v));
                    }
                }
            }
            Op::NewPart(v) => {
                if let Some(a) = &arc {
                    let v = *v as u64 + 1;
                    pool.push(Obj::Part(group_obj!((LfI::new(v), mk_ctx(a)) as LfPartGroup), v));
                }
            }
            Op::NewUw(v) => {
                if let Some(a) = &arc {
                    let v = *v as u64 + 1;
                    pool.push(Obj::Uw(trait_obj!((RtI::new(v), mk_ctx(a)) as Uw), v));
                }
            }
            _ if n == 0 => {}
            Op::TryMid(c, fail_it, plain) => {
                let i = pick(*c, n);
                if matches!(pool[i], Obj::Root(..) | Obj::RootG(..)) {
                    st.transfers += 1;
                    let o = pool.remove(i);
                    macro_rules! go {
                        ($o:expr, $v:expr) => {
                            if *plain {
                                match $o.rt_try_mid_plain(*fail_it) {
                                    Ok(m) => {
                                        ensure!(!*fail_it, "C13:variant", "{when}: failing call returned Ok");
                                        st.derived += 1;
                                        pool.push(Obj::Mid(m, $v * 5));
                                    }
                                    Err(e) => ensure!(*fail_it && e == $v as u8, "C13:variant", "{when}: wrong Err({e})"),
                                }
                            } else {
                                match $o.rt_try_mid(*fail_it) {
                                    Ok(m) => {
                                        ensure!(!*fail_it, "C13:variant", "{when}: failing call returned Ok");
                                        st.derived += 1;
                                        pool.push(Obj::Mid(m, $v * 5));
                                    }
                                    Err(()) => ensure!(*fail_it, "C13:variant", "{when}: succeeding call returned Err"),
                                }
                            }
                        };
                    }
                    match o {
                        Obj::Root(o, v) => go!(o, v),
                        Obj::RootG(o, v) => go!(o, v),
                        _ => unreachable!(),
                    }
                }
            }
            Op::Call(c) => match &pool[pick(*c, n)] {
                Obj::Root(o, v) => ensure!(o.rt_val() == *v, "C01:ret", "{when}: root answers {}", o.rt_val()),
                Obj::RootG(o, v) => ensure!(o.rt_val() == *v, "C01:ret", "{when}: root group answers {}", o.rt_val()),
                Obj::Mid(o, v) => ensure!(o.md_val() == *v, "C01:ret", "{when}: mid answers {}", o.md_val()),
                Obj::MidG(o, v) => ensure!(o.md_val() == *v, "C01:ret", "{when}: mid group answers {}", o.md_val()),
                Obj::Leaf(o, v) => ensure!(o.lf_val() == *v, "C01:ret", "{when}: leaf answers {}", o.lf_val()),
                Obj::Uw(o, v) => ensure!(o.uw_val() == *v, "C01:ret", "{when}: object answers {}", o.uw_val()),
                Obj::Part(o, v) => ensure!(o.lf_val() == *v, "C01:ret", "{when}: leaf group answers {}", o.lf_val()),
            },
            Op::MidObj(c) => {
                let new = match &pool[pick(*c, n)] {
                    Obj::Root(o, v) => Some(Obj::Mid(o.rt_mid(), v * 2)),
                    Obj::RootG(o, v) => Some(Obj::Mid(o.rt_mid(), v * 2)),
                    _ => None,
                };
                if let Some(x) = new {
                    st.derived += 1;
                    st.transfers += 1;
                    pool.push(x);
                }
            }
            Op::MidGroup(c) => {
                let new = match &pool[pick(*c, n)] {
                    Obj::Root(o, v) => Some(Obj::MidG(o.rt_mid_group(), v * 2 + 1)),
                    Obj::RootG(o, v) => Some(Obj::MidG(o.rt_mid_group(), v * 2 + 1)),
                    _ => None,
                };
                if let Some(x) = new {
                    st.derived += 1;
                    st.transfers += 1;
                    pool.push(x);
                }
            }
            Op::LeafOf(c) => {
                let new = match &pool[pick(*c, n)] {
                    Obj::Mid(o, v) => Some(Obj::Leaf(o.md_leaf(), v * 3 + 1)),
                    Obj::MidG(o, v) => Some(Obj::Leaf(o.md_leaf(), v * 3 + 1)),
                    _ => None,
                };
                if let Some(x) = new {
                    st.derived += 1;
                    st.transfers += 1;
                    pool.push(x);
                }
            }
            Op::LeafRef(c) => match &pool[pick(*c, n)] {
                Obj::Root(o, v) => {
                    let r = o.rt_leaf_ref();
                    ensure!(r.lfro_val() == v + 100, "C01:ret", "{when}: borrowed leaf answers {}", r.lfro_val());
                    st.leak += 1;
                    st.borrowed += 1;
                }
                Obj::RootG(o, v) => {
                    let r = o.rt_leaf_ref();
                    ensure!(r.lfro_val() == v + 100, "C01:ret", "{when}: borrowed leaf answers {}", r.lfro_val());
                    st.leak += 1;
                    st.borrowed += 1;
                }
                _ => {}
            },
            Op::LeafGroupRef(c) => match &pool[pick(*c, n)] {
                Obj::Root(o, v) => {
                    let r = o.rt_leaf_group_ref();
                    ensure!(r.lfro_val() == v + 100, "C01:ret", "{when}: borrowed leaf group answers {}", r.lfro_val());
                    let x = as_ref!(r impl MdX);
                    ensure!(x.map(|x| x.mdx_val()) == Some(v + 101), "C08:cast", "{when}: borrowed leaf group lost its optional trait");
                    st.leak += 1;
                    st.borrowed += 1;
                }
                _ => {}
            },
            Op::LeafMut(c) => {
                let i = pick(*c, n);
                match &mut pool[i] {
                    Obj::Root(o, v) => {
                        let r = o.rt_leaf_mut();
                        r.lf_set(*v + 555);
                        ensure!(r.lf_val() == *v + 555, "C01:ret", "{when}: mutably borrowed leaf lost a write");
                        st.leak += 1;
                        st.borrowed += 1;
                    }
                    Obj::RootG(o, v) => {
                        let r = o.rt_leaf_mut();
                        r.lf_set(*v + 556);
                        ensure!(r.lf_val() == *v + 556, "C01:ret", "{when}: mutably borrowed leaf lost a write");
                        st.leak += 1;
                        st.borrowed += 1;
                    }
                    _ => {}
                }
            }
            Op::ReplaceLeafMut(c) => {
                let i = pick(*c, n);
                if let (Obj::Root(o, v), true) = (&mut pool[i], spare_raw.len() < 4) {
                    let raw = Box::into_raw(Box::new(LfI::detached(900 + spare_raw.len() as u64)));
                    spare_raw.push(raw);
                    let leaf: &'static mut LfI = unsafe { &mut *raw };
                    // the child lent by `&mut self` is an object of its own: it can be swapped for
                    // another one (carrying another context) and the old one dropped; that must
                    // release what the old child held - not what its parent holds
                    let fresh: LfBase<'_, &mut cglue::trait_group::c_void, Cx> = trait_obj!((leaf, CArc::<SidePayload>::from(side.clone()).into_opaque()) as Lf);
                    let slot = o.rt_leaf_mut();
                    let old = std::mem::replace(slot, fresh);
                    std::hint::black_box(old.lf_val());
                    drop(old);
                    ensure!(o.rt_val() == *v, "C01:ret", "{when}: root answers {} after its borrowed child was replaced", o.rt_val());
                    st.borrowed += 1;
                    st.replaced += 1;
                    st.derived += 1;
                }
            }
            Op::CloneOf(c) => {
                let i = pick(*c, n);
                if matches!(pool[i], Obj::RootG(..) | Obj::MidG(..)) {
                    st.derived += 1;
                    st.transfers += 1;
                    match pool.remove(i) {
                        Obj::RootG(g, v) => {
                            let x = cast!(g impl Clone).ok_or_else(|| Fail::new("C08:cast", format!("{when}: cast to Clone refused")))?;
                            let c = x.clone();
                            ensure!(c.rt_val() == v, "C01:ret", "{when}: clone answers {}", c.rt_val());
                            pool.push(Obj::RootG(x.upcast(), v));
                            pool.push(Obj::RootG(c.into(), v)); // back through `From<cast form> for Group`, the other documented way
                        }
                        Obj::MidG(g, v) => {
                            let x = cast!(g impl Clone).ok_or_else(|| Fail::new("C08:cast", format!("{when}: cast to Clone refused")))?;
                            let c = x.clone();
                            ensure!(c.md_val() == v, "C01:ret", "{when}: clone answers {}", c.md_val());
                            pool.push(Obj::MidG(x.upcast(), v));
                            pool.push(Obj::MidG(c.into(), v));
                        }
                        _ => unreachable!(),
                    }
                }
            }
            Op::CastBack(c, which) => {
                let i = pick(*c, n);
                let o = pool.remove(i);
                let back = match o {
                    Obj::RootG(g, v) => {
                        st.transfers += 1;
                        let b = match which % 3 {
                            0 => cast!(g impl RtX).map(|x| {
                                let ok = x.rtx_val() == v + 3 && x.rt_val() == v;
                                (x.upcast(), ok)
                            }),
                            1 => cast!(g impl Clone).map(|x| {
                                let ok = x.rt_val() == v;
                                (x.upcast(), ok)
                            }),
                            _ => cast!(g impl Clone + RtX).map(|x| {
                                let ok = x.rtx_val() == v + 3;
                                (x.upcast(), ok)
                            }),
                        };
                        match b {
                            Some((g, ok)) => {
                                ensure!(ok, "C01:ret", "{when}: cast object answers wrongly");
                                Some(Obj::RootG(g, v))
                            }
                            None => fail!("C08:cast", "{when}: cast to enabled traits refused"),
                        }
                    }
                    Obj::MidG(g, v) => {
                        st.transfers += 1;
                        match cast!(g impl MdX) {
                            Some(x) => {
                                ensure!(x.mdx_val() == v + 2 && x.md_val() == v, "C01:ret", "{when}: cast mid group answers wrongly");
                                Some(Obj::MidG(x.upcast(), v))
                            }
                            None => fail!("C08:cast", "{when}: cast to an enabled trait refused"),
                        }
                    }
                    o => Some(o),
                };
                if let Some(o) = back {
                    pool.insert(i, o);
                }
            }
            Op::PartInto(c, which) => {
                let i = pick(*c, n);
                if matches!(pool[i], Obj::Part(..)) {
                    if let Obj::Part(g, v) = pool.remove(i) {
                        st.transfers += 1;
                        st.derived += 1;
                        match which % 3 {
                            0 => ensure!(into!(g impl MdX).is_none(), "C08:cast", "{when}: final cast to a trait the implementor does not enable was granted"),
                            1 => ensure!(into!(g impl LfRo + MdX).is_none(), "C08:cast", "{when}: final cast to an enabled and a not enabled trait was granted"),
                            _ => {
                                let f = into!(g impl LfRo).ok_or_else(|| Fail::new("C08:cast", format!("{when}: final cast to an enabled trait refused")))?;
                                ensure!(f.lfro_val() == v && f.lf_val() == v, "C01:ret", "{when}: final form answers wrongly");
                                drop(f);
                            }
                        }
                        // the consumed object is gone either way: its context clone with it
                    }
                }
            }
            Op::IntoFinal(c, which) => {
                let i = pick(*c, n);
                if matches!(pool[i], Obj::RootG(..)) {
                    if let Obj::RootG(g, v) = pool.remove(i) {
                        st.transfers += 1;
                        match which % 2 {
                            0 => {
                                let f = into!(g impl RtX).ok_or_else(|| Fail::new("C08:cast", format!("{when}: into refused")))?;
                                ensure!(f.rtx_val() == v + 3 && f.rt_val() == v, "C01:ret", "{when}: final object answers wrongly");
                                count_check(vc, &arc, &weak, &pool, &St { leak: st.leak, ..Default::default() }, &format!("{when} (final form alive)")).or_else(|e| {
                                    // the final form is a live holder as well
                                    let actual = weak.strong_count();
                                    let base = arc.is_some() as usize + pool.len() + 1;
                                    if actual == base || (st.leak > 0 && actual == base + st.leak && vc.known(K_RETTMP)) { Ok(()) } else { Err(e) }
                                })?;
                                ensure!(f.rt_finish() == v + 9, "C01:ret", "{when}: consuming call on the final form answers wrongly");
                            }
                            _ => {
                                let f = into!(g impl Clone + RtX).ok_or_else(|| Fail::new("C08:cast", format!("{when}: into refused")))?;
                                let f2 = f.clone();
                                ensure!(f2.rt_val() == v && f.rtx_val() == v + 3, "C01:ret", "{when}: clone of the final form answers wrongly");
                            }
                        }
                    }
                }
            }
            Op::IntoMid(c) => {
                let i = pick(*c, n);
                if matches!(pool[i], Obj::Root(..) | Obj::RootG(..)) {
                    let o = pool.remove(i);
                    st.transfers += 1;
                    st.derived += 1;
                    match o {
                        Obj::Root(o, v) => pool.push(Obj::Mid(o.rt_into_mid(), v * 5)),
                        Obj::RootG(o, v) => pool.push(Obj::Mid(o.rt_into_mid(), v * 5)),
                        _ => unreachable!(),
                    }
                    st.outlived = true;
                }
            }
            Op::Finish(c) => {
                let i = pick(*c, n);
                let o = pool.remove(i);
                st.transfers += 1;
                match o {
                    Obj::Root(o, v) => ensure!(o.rt_finish() == v + 9, "C01:ret", "{when}: consuming call answers wrongly"),
                    Obj::RootG(o, v) => ensure!(o.rt_finish() == v + 9, "C01:ret", "{when}: consuming call answers wrongly"),
                    Obj::Mid(o, v) => ensure!(o.md_done() == v + 7, "C01:ret", "{when}: consuming call answers wrongly"),
                    Obj::MidG(o, v) => ensure!(o.md_done() == v + 7, "C01:ret", "{when}: consuming call answers wrongly"),
                    Obj::Uw(o, v) => ensure!(o.uw_take() == v + 11, "C01:ret", "{when}: consuming call answers wrongly"),
                    o => pool.insert(i, o),
                }
            }
            Op::FinishLast(via) => {
                // only meaningful when exactly one object holds the context and nothing leaked
                if pool.len() == 1 && st.leak == 0 && arc.is_some() && matches!(pool[0], Obj::Root(..) | Obj::Mid(..) | Obj::RootG(..) | Obj::Uw(..)) {
                    let a = arc.take();
                    capture.store(true, SeqCst);
                    drop(a); // the object's context is now the last reference
                    ensure!(weak.strong_count() == 1, "C07:ctx-count", "{when}: expected the object to hold the only reference, count is {}", weak.strong_count());
                    let o = pool.remove(0);
                    let r = match o {
                        Obj::Root(o, v) => match via % 3 {
                            0 => o.rt_finish() == v + 9,
                            1 => o.rt_try_mid(true).is_err(),
                            _ => o.rt_try_mid_plain(true).err() == Some(v as u8),
                        },
                        Obj::RootG(o, v) => match via % 3 {
                            0 => o.rt_finish() == v + 9,
                            1 => o.rt_try_mid(true).is_err(),
                            _ => o.rt_try_mid_plain(true).err() == Some(v as u8),
                        },
                        Obj::Mid(o, v) => o.md_done() == v + 7,
                        Obj::Uw(o, v) => o.uw_take() == v + 11,
                        _ => true,
                    };
                    capture.store(false, SeqCst);
                    ensure!(r, "C01:ret", "{when}: consuming call answers wrongly");
                    ensure!(weak.strong_count() == 0, "C07:ctx-count", "{when}: the context outlives the consumed last holder (count {})", weak.strong_count());
                    let site = drop_site.lock().unwrap().take();
                    match site {
                        None => fail!("C07:ctx-count", "{when}: the context payload was not dropped"),
                        Some(bt) => {
                            // the release must happen after the C-side wrapper returned
                            if let Some(line) = bt.lines().find(|l| l.contains("cglue_wrapped_")) {
                                fail!("C07:released-inside-call", "{when}: the last context reference was released while the consuming call was still executing: frame `{}` is on the stack at the payload's Drop", line.trim());
                            }
                        }
                    }
                    st.consumed_last = true;
                }
            }
            Op::Drop(c) => {
                let i = pick(*c, n);
                let was_parent = matches!(pool[i], Obj::Root(..) | Obj::RootG(..));
                drop(pool.remove(i));
                if was_parent && !pool.is_empty() {
                    st.outlived = true;
                }
            }
        }
        if weak.strong_count() == 0 {
            // context gone (FinishLast): nothing more can be created
            ensure!(pool.is_empty(), "C07:ctx-count", "{when}: context gone while {} objects are alive", pool.len());
            break;
        }
        count_check(vc, &arc, &weak, &pool, &st, &when)?;
    }
    // in half of the cases the harness gives up its own reference first: the object dropped last is
    // then the last holder of the context, and its (implicit) destruction must release the context
    // only after its instance is gone
    if case.drop_order.len() % 2 == 1 && !pool.is_empty() && st.leak == 0 {
        drop(arc.take());
        st.derived += 1;
    }
    // final drops in a generated order
    let mut k = 0;
    while !pool.is_empty() {
        let i = pick(case.drop_order.get(k).copied().unwrap_or(0), pool.len());
        k += 1;
        drop(pool.remove(i));
        count_check(vc, &arc, &weak, &pool, &st, &format!("final drop {k}"))?;
    }
    if let Some(a) = arc.take() {
        let c = Arc::strong_count(&a);
        let ok = c == 1 || (st.leak > 0 && c == 1 + st.leak && vc.known(K_RETTMP));
        ensure!(ok, "C07:ctx-count", "after all derived objects were dropped the context count is {c}, its start value was 1");
        drop(a);
    }
    let _ = ptok;
    for raw in spare_raw {
        drop(unsafe { Box::from_raw(raw) });
    }
    drop(side);
    Ok(st)
}

pub fn check(vc: &Ctx, prop: &str, case: &Case) -> CaseResult {
    let (r, rep) = tracked_confirmed(|| body(vc, case));
    let st = match r {
        Ok(st) => st,
        Err(f) => return filter(prop, f),
    };
    let leak_tolerated = (st.leak > 0 || st.replaced > 0) && vc.args.known.contains(K_RETTMP);
    // (a replacement child parked in the temporary storage is never dropped either - the same
    // known finding: its context payload, the side token, then never dies)
    let side_tolerated = st.replaced > 0 && vc.args.known.contains(K_RETTMP);
    let side_tok = st.side_tok;
    if st.replaced > 0 && !side_tolerated && tok::drops(side_tok) == 0 {
        // the same finding seen from the replacement child's side: it belongs to C07's list
        return filter(prop, Fail::new(K_RETTMP, "a child parked in an object's temporary-return storage is never dropped: the context clone it carries is not released".to_string()));
    }
    // with the known ret_tmp leak the context payload (token 0, created first) never dies:
    // exactly that is tolerated, nothing else
    let bad: Vec<_> = tok::mismatches(|_| 1).into_iter().filter(|m| !(leak_tolerated && st.leak > 0 && *m == (0, 1, 0)) && !(side_tolerated && *m == (side_tok, 1, 0))).collect();
    if !bad.is_empty() {
        return filter(prop, Fail::new("C06:drop-count", format!("values whose destructor ran a number of times other than once (token, expected, seen): {:?}", &bad[..bad.len().min(5)])));
    }
    if !rep.misuses.is_empty() {
        return filter(prop, Fail::new("C06:alloc-misuse", rep.describe()));
    }
    if !rep.leaked.is_empty() && !leak_tolerated {
        return filter(prop, Fail::new("C06:leak", rep.describe()));
    }
    let nt = match prop {
        "C06" => st.transfers > 0,
        _ => st.outlived || st.consumed_last || st.derived > 0,
    };
    Ok(Info::new(nt)
        .class_if(st.outlived, "child outlives parent")
        .class_if(st.consumed_last, "consuming call on the last holder")
        .class_if(st.borrowed > 0, "borrowed wrapped return")
        .class_if(st.transfers > 0, "ownership transfer"))
}

fn filter(prop: &str, f: Fail) -> CaseResult {
    let mine = f.key.starts_with(&format!("{prop}:")) || f.key == "panic";
    if mine {
        Err(f)
    } else {
        Ok(Info::new(false).class("failed-for-another-property"))
    }
}

fn op_strategy() -> impl Strategy<Value = Op> {
    prop_oneof![
        4 => (any::<bool>(), any::<u8>()).prop_map(|(g, v)| Op::NewRoot(g, v)),
        2 => any::<u16>().prop_map(Op::Call),
        3 => any::<u16>().prop_map(Op::MidObj),
        3 => any::<u16>().prop_map(Op::MidGroup),
        3 => any::<u16>().prop_map(Op::LeafOf),
        1 => any::<u16>().prop_map(Op::LeafRef),
        1 => any::<u16>().prop_map(Op::LeafMut),
        1 => any::<u16>().prop_map(Op::ReplaceLeafMut),
        1 => any::<u16>().prop_map(Op::LeafGroupRef),
        2 => any::<u16>().prop_map(Op::CloneOf),
        2 => (any::<u16>(), 0u8..3).prop_map(|(i, w)| Op::CastBack(i, w)),
        1 => (any::<u16>(), 0u8..2).prop_map(|(i, w)| Op::IntoFinal(i, w)),
        1 => any::<u8>().prop_map(Op::NewPart),
        2 => (any::<u16>(), 0u8..3).prop_map(|(i, w)| Op::PartInto(i, w)),
        2 => any::<u16>().prop_map(Op::IntoMid),
        2 => any::<u16>().prop_map(Op::Finish),
        1 => (0u8..3).prop_map(Op::FinishLast),
        1 => any::<u8>().prop_map(Op::NewUw),
        2 => (any::<u16>(), any::<bool>(), any::<bool>()).prop_map(|(i, f, p)| Op::TryMid(i, f, p)),
        4 => any::<u16>().prop_map(Op::Drop),
    ]
}

pub fn strategy() -> impl Strategy<Value = Case> {
    (prop::collection::vec(op_strategy(), 0..30), prop::collection::vec(any::<u16>(), 0..12)).prop_map(|(ops, drop_order)| Case { ops, drop_order })
}

/// histories built to end in a consuming call on the last holder
pub fn last_holder_strategy() -> impl Strategy<Value = Case> {
    (any::<bool>(), any::<u8>(), 0u8..5, 0u8..3, prop::collection::vec(any::<u16>(), 0..4)).prop_map(|(g, v, via, how, pre)| {
        let mut ops = if via == 3 { vec![Op::NewUw(v)] } else { vec![Op::NewRoot(g, v)] };
        for p in pre {
            ops.push(Op::Call(p));
        }
        match via {
            1 => ops.push(Op::IntoMid(0)),
            2 => {
                ops.push(Op::MidObj(0));
                ops.push(Op::Drop(0));
            }
            4 => ops.push(Op::TryMid(0, false, how == 1)),
            _ => {}
        }
        ops.push(Op::FinishLast(how));
        Case { ops, drop_order: vec![] }
    })
}
