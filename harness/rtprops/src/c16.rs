//! C16 — runtime types keep the C layout published in the headers.
//!
//! Every carrier is reinterpreted as an independently declared C-view struct (field order and
//! function signatures exactly as the property states them) and is then operated *only*
//! through that view, the way a C caller would. The effect is compared with the same operation
//! done through the Rust API on a twin.
use cglue::arc::{CArc, CArcSome};
use cglue::boxed::{CBox, CSliceBox};
use cglue::callback::OpaqueCallback;
use cglue::iter::CIterator;
use cglue::option::COption;
use cglue::result::CResult;
use cglue::slice::{CSliceMut, CSliceRef};
use cglue::vec::CVec;
use proptest::prelude::*;
use serde::{Deserialize, Serialize};
use std::mem::{align_of, size_of, ManuallyDrop, MaybeUninit};
use std::sync::Arc;
use verifkit::tok::{self, HeapTok};
use verifkit::{ensure, fail, tracked_confirmed, CaseResult, Ctx, Fail, Info};

// ---- the published views ---------------------------------------------------------------------

#[repr(C)]
struct BoxView<T> {
    instance: *mut T,
    drop_fn: Option<unsafe extern "C" fn(*mut T)>,
}
#[repr(C)]
struct SliceView<T> {
    data: *mut T,
    len: usize,
}
#[repr(C)]
struct SliceBoxView<T> {
    instance: SliceView<T>,
    drop_fn: Option<unsafe extern "C" fn(*mut SliceView<T>)>,
}
#[repr(C)]
struct ArcView<T> {
    instance: *const T,
    clone_fn: Option<unsafe extern "C" fn(*const T) -> *const T>,
    drop_fn: Option<unsafe extern "C" fn(*const T)>,
}
#[repr(C)]
struct VecView<T> {
    data: *mut T,
    len: usize,
    capacity: usize,
    drop_fn: Option<unsafe extern "C" fn(*mut T, usize, usize)>,
    reserve_fn: Option<unsafe extern "C" fn(*mut VecView<T>, usize) -> usize>,
}
#[repr(C)]
struct CallbackView<T> {
    context: *mut u8,
    func: Option<unsafe extern "C" fn(*mut u8, T) -> bool>,
}
#[repr(C)]
struct IterView<T> {
    iter: *mut u8,
    func: Option<unsafe extern "C" fn(*mut u8, *mut MaybeUninit<T>) -> i32>,
}
/// C rendering of a `repr(C)` data-carrying enum: `struct { int tag; union { .. } payload; }`
#[repr(C)]
struct TaggedView<P> {
    tag: std::os::raw::c_int,
    payload: P,
}
/// `struct CGlueObjContainer_.. { instance; context; ret_tmp; }` as the headers declare it
#[repr(C)]
struct ContView<T, R> {
    instance: BoxView<T>,
    context: ArcView<u64>,
    ret_tmp: R,
}
#[repr(C)]
union ResUnion<T, E> {
    ok: ManuallyDrop<T>,
    err: ManuallyDrop<E>,
}

fn same_layout<A, B>(what: &str) -> Result<(), Fail> {
    ensure!(
        size_of::<A>() == size_of::<B>() && align_of::<A>() == align_of::<B>(),
        "size-align",
        "{what}: size/align ({},{}) differs from the published C view ({},{})",
        size_of::<A>(),
        align_of::<A>(),
        size_of::<B>(),
        align_of::<B>()
    );
    Ok(())
}

unsafe fn as_view<A, V>(a: A) -> V {
    let a = ManuallyDrop::new(a);
    std::ptr::read(&*a as *const A as *const V)
}

// ---- element types ----------------------------------------------------------------------------

#[derive(Clone, Copy, PartialEq, Debug)]
#[repr(C)]
pub struct Big {
    a: u64,
    b: u64,
    c: u8,
}

pub trait El: Clone + PartialEq + std::fmt::Debug + 'static {
    fn mk(v: u64) -> Self;
}
impl El for u8 {
    fn mk(v: u64) -> Self {
        v as u8
    }
}
impl El for u16 {
    fn mk(v: u64) -> Self {
        v as u16
    }
}
impl El for u32 {
    fn mk(v: u64) -> Self {
        v as u32
    }
}
impl El for u64 {
    fn mk(v: u64) -> Self {
        v
    }
}
impl El for Big {
    fn mk(v: u64) -> Self {
        Big { a: v, b: !v, c: v as u8 }
    }
}
impl El for HeapTok {
    fn mk(v: u64) -> Self {
        HeapTok::new(v)
    }
}
/// over-aligned: the reference-count header of an Arc, the tag of an option/result and the
/// element stride of vectors and slices all sit elsewhere than for ordinary payloads
#[repr(C, align(64))]
#[derive(Clone, Copy, PartialEq, Debug)]
pub struct Wide(u64);
impl El for Wide {
    fn mk(v: u64) -> Self {
        Wide(v)
    }
}

#[derive(Debug, Clone, Serialize, Deserialize)]
pub struct Case {
    /// 0 CBox 1 CSliceBox 2 CArc/CArcSome 3 slices 4 CVec 5 callback 6 iterator 7 COption 9 object container, else CResult
    pub carrier: u8,
    pub elem: u8,
    pub n: u8,
    pub vals: Vec<u64>,
    pub flag: bool,
}

fn val(c: &Case, i: usize) -> u64 {
    c.vals.get(i % c.vals.len().max(1)).copied().unwrap_or(i as u64).wrapping_add(i as u64)
}

fn body<T: El>(c: &Case) -> Result<bool, Fail> {
    let n = c.n as usize;
    match c.carrier % 10 {
        0 => {
            same_layout::<CBox<T>, BoxView<T>>("CBox")?;
            let b = CBox::from(T::mk(val(c, 0)));
            let expect = T::mk(val(c, 0));
            let v: BoxView<T> = unsafe { as_view(b) };
            ensure!(!v.instance.is_null(), "box-fields", "CBox.instance is null");
            ensure!(unsafe { &*v.instance } == &expect, "box-fields", "first field of CBox does not point to the value");
            let f = v.drop_fn.ok_or_else(|| Fail::new("box-fields", "second field of CBox is not a drop function"))?;
            unsafe { f(v.instance) }; // C: obj.drop_fn(obj.instance)
            Ok(true)
        }
        1 => {
            same_layout::<CSliceBox<T>, SliceBoxView<T>>("CSliceBox")?;
            let items: Vec<T> = (0..n).map(|i| T::mk(val(c, i))).collect();
            let expect = items.clone();
            let b = CSliceBox::from(items.into_boxed_slice());
            let mut v: SliceBoxView<T> = unsafe { as_view(b) };
            ensure!(v.instance.len == n, "slicebox-fields", "CSliceBox.instance.len = {} for {n} items", v.instance.len);
            for (i, e) in expect.iter().enumerate() {
                ensure!(unsafe { &*v.instance.data.add(i) } == e, "slicebox-fields", "CSliceBox.instance.data[{i}] differs");
            }
            let f = v.drop_fn.ok_or_else(|| Fail::new("slicebox-fields", "CSliceBox.drop_fn missing"))?;
            unsafe { f(&mut v.instance) };
            Ok(true)
        }
        2 => {
            same_layout::<CArc<T>, ArcView<T>>("CArc")?;
            same_layout::<CArcSome<T>, ArcView<T>>("CArcSome")?;
            let arc = Arc::new(T::mk(val(c, 0)));
            let weak = Arc::downgrade(&arc);
            let v: ArcView<T> = if c.flag { unsafe { as_view(CArc::<T>::from(arc)) } } else { unsafe { as_view(CArcSome::<T>::from(arc)) } };
            ensure!(v.instance == weak.as_ptr(), "arc-fields", "first field of the arc is not the instance pointer");
            let cl = v.clone_fn.ok_or_else(|| Fail::new("arc-fields", "clone_fn missing"))?;
            let dr = v.drop_fn.ok_or_else(|| Fail::new("arc-fields", "drop_fn missing"))?;
            ensure!(weak.strong_count() == 1, "arc-count", "strong count {} after construction", weak.strong_count());
            let mut extra = Vec::new();
            for k in 0..n % 5 {
                let p = unsafe { cl(v.instance) }; // C: clone
                ensure!(p == v.instance, "arc-clone", "clone_fn returned another pointer");
                ensure!(weak.strong_count() == 2 + k, "arc-count", "strong count {} after {} C-side clones", weak.strong_count(), k + 1);
                extra.push(p);
            }
            // an empty arc as C sees it
            let e: ArcView<T> = unsafe { as_view(CArc::<T>::default()) };
            ensure!(e.instance.is_null(), "arc-fields", "empty CArc has a non-null instance");
            // a C-made clone handed back to Rust behaves as a real handle
            if let Some(p) = extra.pop() {
                let back: CArcSome<T> = unsafe { as_view(ArcView { instance: p, clone_fn: v.clone_fn, drop_fn: v.drop_fn }) };
                ensure!(&*back == &T::mk(val(c, 0)), "arc-fields", "handle rebuilt from C fields derefs to another value");
                drop(back);
            }
            for p in extra {
                unsafe { dr(p) };
            }
            ensure!(weak.strong_count() == 1, "arc-count", "strong count {} after releasing the C-side clones", weak.strong_count());
            unsafe { dr(v.instance) };
            ensure!(weak.strong_count() == 0, "arc-count", "strong count {} after the last C-side release", weak.strong_count());
            Ok(true)
        }
        3 => {
            same_layout::<CSliceRef<T>, SliceView<T>>("CSliceRef")?;
            same_layout::<CSliceMut<T>, SliceView<T>>("CSliceMut")?;
            let mut items: Vec<T> = (0..n + 1).map(|i| T::mk(val(c, i))).collect();
            let expect = items.clone();
            let r: SliceView<T> = unsafe { as_view(CSliceRef::from(&items[1..])) };
            ensure!(r.len == n && r.data as *const T == items[1..].as_ptr(), "slice-fields", "CSliceRef is not {{data, len}}");
            for i in 0..n {
                ensure!(unsafe { &*r.data.add(i) } == &expect[i + 1], "slice-fields", "CSliceRef.data[{i}] differs");
            }
            let p = items[1..].as_mut_ptr();
            let m: SliceView<T> = unsafe { as_view(CSliceMut::from(&mut items[1..])) };
            ensure!(m.len == n && m.data == p, "slice-fields", "CSliceMut is not {{data, len}}");
            // a slice made in C is read correctly by Rust
            let made: CSliceRef<T> = unsafe { as_view(SliceView { data: p, len: n }) };
            ensure!(made.as_slice() == &expect[1..], "slice-fields", "a {{data,len}} pair made by C reads differently in Rust");
            Ok(n > 0)
        }
        4 => {
            same_layout::<CVec<T>, VecView<T>>("CVec")?;
            let items: Vec<T> = (0..n).map(|i| T::mk(val(c, i))).collect();
            let mut model = items.clone();
            let mut v: VecView<T> = unsafe { as_view(CVec::from(items)) };
            ensure!(v.len == n && v.capacity >= n, "vec-fields", "CVec len/capacity fields read {}/{} for {n} items", v.len, v.capacity);
            for (i, e) in model.iter().enumerate() {
                ensure!(unsafe { &*v.data.add(i) } == e, "vec-fields", "CVec.data[{i}] differs");
            }
            // grow from C: reserve_fn(&vec, additional) returns the new capacity, then append in place
            let add = 1 + (val(c, 9) % 40) as usize;
            let rf = v.reserve_fn.ok_or_else(|| Fail::new("vec-fields", "reserve_fn missing"))?;
            let cap = unsafe { rf(&mut v, add) };
            ensure!(cap == v.capacity, "vec-reserve", "reserve_fn returned {cap} but the capacity field says {}", v.capacity);
            ensure!(v.capacity - v.len >= add, "vec-reserve", "after reserve_fn(.., {add}): capacity {} len {}", v.capacity, v.len);
            ensure!(v.len == n, "vec-reserve", "reserve_fn changed len");
            for k in 0..add {
                let x = T::mk(val(c, 100 + k));
                model.push(x.clone());
                unsafe { v.data.add(v.len).write(x) };
                v.len += 1;
            }
            if c.flag {
                // hand it back to Rust and compare with the model
                let back: CVec<T> = unsafe { as_view(v) };
                ensure!(&back[..] == &model[..], "vec-fields", "vector grown through the C fields differs from the model");
                drop(back);
            } else {
                let df = v.drop_fn.ok_or_else(|| Fail::new("vec-fields", "drop_fn missing"))?;
                unsafe { df(v.data, v.len, v.capacity) };
            }
            Ok(true)
        }
        5 => {
            same_layout::<OpaqueCallback<T>, CallbackView<T>>("OpaqueCallback")?;
            let mut seen: Vec<T> = Vec::new();
            let stop = 1 + n / 2;
            let mut calls = 0usize;
            let mut f = |x: T| {
                seen.push(x);
                calls += 1;
                calls != stop
            };
            let mut sink: Vec<T> = Vec::new();
            let v: CallbackView<T> = if c.flag { unsafe { as_view(OpaqueCallback::from(&mut f)) } } else { unsafe { as_view(OpaqueCallback::from(&mut sink)) } };
            let func = v.func.ok_or_else(|| Fail::new("callback-fields", "func missing"))?;
            let mut offered = Vec::new();
            for i in 0..n {
                let x = T::mk(val(c, i));
                offered.push(x.clone());
                let go = unsafe { func(v.context, x) }; // C: cb.func(cb.context, x)
                if c.flag {
                    ensure!(go == (i + 1 != stop), "callback-return", "callback returned {go} at invocation {}", i + 1);
                    if !go {
                        break;
                    }
                } else {
                    ensure!(go, "callback-return", "vector callback asked to stop");
                }
            }
            let got = if c.flag { &seen } else { &sink };
            ensure!(got == &offered, "callback-args", "sink saw {} items, C offered {}", got.len(), offered.len());
            Ok(n > 0)
        }
        6 => {
            same_layout::<CIterator<T>, IterView<T>>("CIterator")?;
            let items: Vec<T> = (0..n).map(|i| T::mk(val(c, i))).collect();
            let expect = items.clone();
            let mut src = items.into_iter();
            let v: IterView<T> = unsafe { as_view(CIterator::new(&mut src)) };
            let func = v.func.ok_or_else(|| Fail::new("iter-fields", "func missing"))?;
            let mut got = Vec::new();
            loop {
                let mut out = MaybeUninit::<T>::uninit();
                let rc = unsafe { func(v.iter, &mut out) }; // C: it.func(it.iter, &out)
                if rc == 0 {
                    got.push(unsafe { out.assume_init() });
                    ensure!(got.len() <= n, "iter-end", "iterator yields more items than its source");
                } else {
                    break;
                }
            }
            ensure!(got == expect, "iter-items", "C-side iteration yielded {} items, source had {n}", got.len());
            let mut out = MaybeUninit::<T>::uninit();
            ensure!(unsafe { func(v.iter, &mut out) } != 0, "iter-end", "exhausted iterator returned 0");
            // made in C, advanced in Rust: 0 means "an item was written", every other value "no item"
            struct CState<T> {
                items: std::vec::IntoIter<T>,
                end_code: i32,
            }
            unsafe extern "C" fn c_next<T>(st: *mut u8, out: *mut MaybeUninit<T>) -> i32 {
                let st = &mut *(st as *mut CState<T>);
                match st.items.next() {
                    Some(x) => {
                        (*out).write(x);
                        0
                    }
                    None => st.end_code,
                }
            }
            let end_code = [1, 2, -1, i32::MIN, 0x7fff_0000][(val(c, 2) % 5) as usize];
            let mut st = CState { items: expect.clone().into_iter(), end_code };
            let made: CIterator<T> = unsafe { as_view(IterView::<T> { iter: &mut st as *mut CState<T> as *mut u8, func: Some(c_next::<T>) }) };
            let got: Vec<T> = made.take(n + 3).collect();
            ensure!(got == expect, "iter-foreign", "an iterator made from C fields (end signalled with {end_code}) yields {} items in Rust, its source had {n}", got.len());
            Ok(n > 0)
        }
        7 => {
            same_layout::<COption<T>, TaggedView<ManuallyDrop<T>>>("COption")?;
            let some: TaggedView<ManuallyDrop<T>> = unsafe { as_view(COption::Some(T::mk(val(c, 0)))) };
            ensure!(some.tag == 1, "option-tag", "COption::Some has tag {}", some.tag);
            ensure!(&*some.payload == &T::mk(val(c, 0)), "option-payload", "COption::Some payload is not at the C union offset");
            let _ = ManuallyDrop::into_inner(some.payload);
            let none: TaggedView<MaybeUninit<T>> = unsafe { as_view(COption::<T>::None) };
            ensure!(none.tag == 0, "option-tag", "COption::None has tag {}", none.tag);
            // made in C, read in Rust
            let made: COption<T> = unsafe { as_view(TaggedView { tag: 1, payload: ManuallyDrop::new(T::mk(val(c, 1))) }) };
            ensure!(Option::from(made) == Some(T::mk(val(c, 1))), "option-payload", "a {{tag=1, payload}} made by C is not Some(payload)");
            let made: COption<T> = unsafe { as_view(TaggedView { tag: 0, payload: MaybeUninit::<T>::uninit() }) };
            ensure!(!made.is_some(), "option-tag", "a {{tag=0}} made by C is not None");
            Ok(true)
        }
        9 => {
            // the object container every trait object and group embeds: a C caller reaches the
            // instance handle, the context arc and the temporary-return storage at the published
            // offsets (the generated ctx clone/drop helpers of the headers do exactly that)
            fn cont<T: El, R: Default + PartialEq + std::fmt::Debug + 'static>(c: &Case) -> Result<bool, Fail> {
                type Cont<T, R> = cglue::trait_group::CGlueObjContainer<CBox<'static, T>, CArc<u64>, R>;
                same_layout::<Cont<T, R>, ContView<T, R>>("CGlueObjContainer")?;
                let arc = Arc::new(val(c, 1));
                let weak = Arc::downgrade(&arc);
                let obj: Cont<T, R> = (CBox::from(T::mk(val(c, 0))), CArc::from(arc)).into();
                let v: ContView<T, R> = unsafe { as_view(obj) };
                ensure!(!v.instance.instance.is_null() && unsafe { &*v.instance.instance } == &T::mk(val(c, 0)), "container-fields", "container.instance.instance does not point to the value");
                ensure!(v.context.instance == weak.as_ptr(), "container-fields", "container.context is not at the published offset (its instance field is not the context arc's pointer)");
                ensure!(v.ret_tmp == R::default(), "container-fields", "container.ret_tmp is not at the published offset: {:?}", v.ret_tmp);
                let cl = v.context.clone_fn.ok_or_else(|| Fail::new("container-fields", "container.context.clone_fn missing"))?;
                let dr = v.context.drop_fn.ok_or_else(|| Fail::new("container-fields", "container.context.drop_fn missing"))?;
                let extra = unsafe { cl(v.context.instance) }; // C: ctx_arc_clone(&obj.container.context)
                ensure!(weak.strong_count() == 2, "arc-count", "strong count {} after a clone through container.context", weak.strong_count());
                unsafe { dr(extra) };
                unsafe { dr(v.context.instance) }; // C: ctx_arc_drop(&obj.container.context)
                ensure!(weak.strong_count() == 0, "arc-count", "strong count {} after releasing container.context", weak.strong_count());
                let f = v.instance.drop_fn.ok_or_else(|| Fail::new("container-fields", "container.instance.drop_fn missing"))?;
                unsafe { f(v.instance.instance) };
                Ok(true)
            }
            match n % 3 {
                0 => cont::<T, ()>(c),
                1 => cont::<T, [usize; 3]>(c),
                _ => cont::<T, Option<Box<u8>>>(c),
            }
        }
        _ => {
            same_layout::<CResult<T, u16>, TaggedView<ResUnion<T, u16>>>("CResult<T,u16>")?;
            same_layout::<CResult<u8, T>, TaggedView<ResUnion<u8, T>>>("CResult<u8,T>")?;
            let ok: TaggedView<ResUnion<T, u16>> = unsafe { as_view(CResult::<T, u16>::Ok(T::mk(val(c, 0)))) };
            ensure!(ok.tag == 0, "result-tag", "CResult::Ok has tag {}", ok.tag);
            ensure!(unsafe { &*ok.payload.ok } == &T::mk(val(c, 0)), "result-payload", "CResult::Ok payload is not at the C union offset");
            let _ = unsafe { ManuallyDrop::into_inner(ok.payload.ok) };
            let err: TaggedView<ResUnion<u8, T>> = unsafe { as_view(CResult::<u8, T>::Err(T::mk(val(c, 1)))) };
            ensure!(err.tag == 1, "result-tag", "CResult::Err has tag {}", err.tag);
            ensure!(unsafe { &*err.payload.err } == &T::mk(val(c, 1)), "result-payload", "CResult::Err payload is not at the C union offset");
            let _ = unsafe { ManuallyDrop::into_inner(err.payload.err) };
            let made: CResult<T, u16> = unsafe { as_view(TaggedView { tag: 1, payload: ResUnion::<T, u16> { err: ManuallyDrop::new(513) } }) };
            ensure!(matches!(made, CResult::Err(513)), "result-tag", "a {{tag=1, err}} made by C is not Err(err)");
            Ok(true)
        }
    }
}

pub fn check(c: &Case) -> CaseResult {
    let (r, rep) = tracked_confirmed(|| match c.elem % 7 {
        0 => body::<u8>(c),
        1 => body::<u16>(c),
        2 => body::<u32>(c),
        3 => body::<u64>(c),
        4 => body::<Big>(c),
        5 => body::<Wide>(c),
        _ => body::<HeapTok>(c),
    });
    let nontrivial = r?;
    let bad = tok::mismatches(|_| 1);
    ensure!(bad.is_empty(), "drop-count", "values with drop count != 1 (id, expected, seen): {:?}", &bad[..bad.len().min(4)]);
    if !rep.clean() {
        fail!(if rep.misuses.is_empty() { "leak" } else { "alloc-misuse" }, "{} (carrier {}, elem {})", rep.describe(), c.carrier % 10, c.elem % 7);
    }
    Ok(Info::new(nontrivial)
        .class(["CBox", "CSliceBox", "CArc", "CSlice", "CVec", "Callback", "CIterator", "COption", "CResult", "CGlueObjContainer"][(c.carrier % 10) as usize])
        .class(format!("elem{}", c.elem % 7)))
}

pub fn strategy() -> impl Strategy<Value = Case> {
    (0u8..10, 0u8..7, 0u8..40, prop::collection::vec(any::<u64>(), 1..6), any::<bool>()).prop_map(|(carrier, elem, n, vals, flag)| Case { carrier, elem, n, vals, flag })
}

pub fn run(ctx: &Ctx) -> i32 {
    if ctx.is_replay() {
        ctx.run("views", 1, strategy(), check);
    } else {
        'o: for carrier in 0..10u8 {
            for elem in 0..7u8 {
                for n in [0u8, 1, 2, 7] {
                    for flag in [false, true] {
                        let c = Case { carrier, elem, n, vals: vec![3, 0xffff_ffff_ffff, 77], flag };
                        if !ctx.eval("views", &c, check) {
                            break 'o;
                        }
                    }
                }
            }
        }
        ctx.run("views", ctx.n(20_000, 300_000), strategy(), check);
    }
    ctx.finish(
        "carrier in {CBox, CSliceBox, CArc/CArcSome, CSliceRef/CSliceMut, CVec, OpaqueCallback, CIterator, COption, CResult, CGlueObjContainer{CBox, CArc context, empty / non-empty temporary storage}} x element types {u8,u16,u32,u64,24-byte struct,64-byte-aligned struct,droppable heap token} x sizes 0..40 (full product of carrier x element x small sizes enumerated, then random): the value is bit-copied into a C-view struct declared from the published layout (field order, function signatures, enum = {int tag; union}) and released / cloned / read / grown / invoked / advanced only through the view; effects (contents, strong counts, drop counts, allocator balance and layouts) are compared with the Rust-side model, and values assembled from C fields are handed back to Rust. Non-trivial = the operation goes through a function pointer or reads a non-first field",
        &["the view structs in the harness are the statement of the published layout (cross-checked against examples/pregen-headers in DESIGN.md)"],
        false,
    )
}
