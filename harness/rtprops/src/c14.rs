//! C14 — ReprCString owns one well-formed NUL-terminated buffer.
use cglue::repr_cstring::{ReprCStr, ReprCString};
use proptest::prelude::*;
use serde::{Deserialize, Serialize};
use std::hash::{Hash, Hasher};
use verifkit::alloc;
use verifkit::{ensure, fail, tracked_confirmed, CaseResult, Ctx, Fail, Info};

#[derive(Debug, Clone, Serialize, Deserialize)]
pub struct Case {
    /// pieces: 0 = NUL, otherwise a whole UTF-8 scalar (as its code point)
    pub pieces: Vec<u32>,
    /// 0 From<&str> 1 From<String> 2 From<&[u8]>
    pub source: u8,
    pub clones: u8,
}

fn text(c: &Case) -> String {
    c.pieces
        .iter()
        .map(|p| char::from_u32(*p).unwrap_or('\u{fffd}'))
        .collect()
}

fn hash_of<T: Hash + ?Sized>(t: &T) -> u64 {
    let mut h = verifkit::Fnv::new();
    t.hash(&mut h);
    h.finish()
}

fn raw_ptr(s: &ReprCString) -> *const u8 {
    // repr(transparent) over a non-null pointer, as published
    assert_eq!(std::mem::size_of::<ReprCString>(), std::mem::size_of::<*const u8>());
    unsafe { *(s as *const ReprCString as *const *const u8) }
}

fn examine(s: &ReprCString, prefix: &str, what: &str, known_bytes_defect: &mut bool, ctx: &Ctx, from_bytes: bool) -> Result<(), Fail> {
    let tolerate = |key: &str, kb: &mut bool| -> bool {
        if from_bytes && ctx.known(key) {
            *kb = true;
            true
        } else {
            false
        }
    };
    // the buffer: input up to the first NUL followed by exactly one NUL, in a block of that size
    let p = raw_ptr(s);
    match alloc::block_of(p as usize) {
        Some((size, _)) => {
            if size != prefix.len() + 1 {
                if !tolerate("C14:from-bytes:buffer-not-prefix-plus-nul", known_bytes_defect) {
                    fail!("buffer-size", "{what}: buffer block has {size} bytes, expected prefix {} + 1 NUL", prefix.len());
                }
                return Ok(()); // reading further would leave the block
            }
            let bytes = unsafe { std::slice::from_raw_parts(p, size) };
            ensure!(&bytes[..prefix.len()] == prefix.as_bytes(), "buffer-contents", "{what}: buffer does not start with the input prefix");
            ensure!(bytes[prefix.len()] == 0, "buffer-terminator", "{what}: byte after the prefix is {:#x}, not NUL", bytes[prefix.len()]);
        }
        None => fail!("buffer-not-a-block", "{what}: the string does not point to the start of a heap block of its own"),
    }
    let got: &str = s.as_ref();
    ensure!(got == prefix, "as-ref", "{what}: as_ref() = {got:?}, expected {prefix:?}");
    let d: &str = s;
    ensure!(d == prefix, "as-ref", "{what}: Deref = {d:?}, expected {prefix:?}");
    ensure!(format!("{s}") == prefix, "display", "{what}: Display differs");
    ensure!(format!("{s:>5}") == format!("{prefix:>5}"), "display", "{what}: padded Display differs");
    ensure!(format!("{s:?}").contains(&format!("{prefix:?}")), "display", "{what}: Debug does not show the text");
    ensure!(hash_of(s) == hash_of(prefix), "hash", "{what}: Hash differs from the hash of the text");
    let b: &ReprCStr = std::borrow::Borrow::borrow(s);
    ensure!(b.as_ref() == prefix, "borrow", "{what}: Borrow<ReprCStr> reads {:?}", b.as_ref());
    Ok(())
}

fn body(c: &Case, ctx: &Ctx, kb: &mut bool) -> Result<(), Fail> {
    let full = text(c);
    let prefix: &str = full.split('\0').next().unwrap_or("");
    let from_bytes = c.source % 3 == 2;
    // The input lives at the very end of an exact-size heap block: a read past it lands in the
    // allocator's red zone (non-zero canaries), never in a lucky NUL.
    let exact: Box<[u8]> = full.as_bytes().to_vec().into_boxed_slice();
    let s = match c.source % 3 {
        0 => ReprCString::from(unsafe { std::str::from_utf8_unchecked(&exact) }),
        1 => ReprCString::from(full.clone()),
        _ => ReprCString::from(&exact[..]),
    };
    if let Err(e) = examine(&s, prefix, "fresh value", kb, ctx, from_bytes) {
        // a malformed buffer must not be handed to Drop (it would scan/free out of bounds)
        std::mem::forget(s);
        return Err(e);
    }
    if *kb {
        // known defect: the value cannot be examined further without leaving its buffer; it
        // must not even be dropped (wrong-size free). Count and stop.
        std::mem::forget(s);
        return Ok(());
    }
    let twin = ReprCString::from(prefix);
    ensure!(s == twin, "eq", "value differs from a ReprCString of its own text");
    let other = ReprCString::from(format!("{prefix}x"));
    ensure!(s != other, "eq", "value equals a ReprCString of a longer text");
    let mut clones = Vec::new();
    for k in 0..c.clones % 4 {
        let cl = s.clone();
        ensure!(raw_ptr(&cl) != raw_ptr(&s), "clone-alias", "clone {k} shares the buffer");
        examine(&cl, prefix, "clone", kb, ctx, false)?;
        ensure!(cl == s, "eq", "clone differs");
        clones.push(cl);
    }
    drop(s);
    for cl in &clones {
        examine(cl, prefix, "clone after the original was dropped", kb, ctx, false)?;
    }
    // borrowed C string view
    let cs = std::ffi::CString::new(prefix).unwrap();
    #[cfg(feature = "std")]
    let v = ReprCStr::from(cs.as_c_str());
    // (without the library's `std` feature there is no conversion from &CStr)
    #[cfg(not(feature = "std"))]
    let v: ReprCStr = unsafe { std::mem::transmute::<*const std::os::raw::c_char, ReprCStr>(cs.as_ptr()) };
    ensure!(v.as_ref() == prefix, "cstr", "ReprCStr reads {:?}, expected {prefix:?}", v.as_ref());
    ensure!(format!("{v}") == prefix, "cstr", "ReprCStr Display differs");
    ensure!(hash_of(&v) == hash_of(prefix), "cstr", "ReprCStr Hash differs");
    let v2 = v;
    ensure!(v2 == v, "cstr", "ReprCStr copies compare unequal");
    Ok(())
}

pub fn check_with(ctx: &Ctx, c: &Case) -> CaseResult {
    let kb = std::cell::Cell::new(false);
    let (r, rep) = tracked_confirmed(|| {
        let mut k = false;
        let r = body(c, ctx, &mut k);
        kb.set(k);
        r
    });
    r?;
    let from_bytes = c.source % 3 == 2;
    if !rep.clean() {
        let key = if rep.misuses.is_empty() { "leak" } else { "alloc-misuse" };
        let tolerated = from_bytes
            && (kb.get() || ctx.args.known.contains("C14:from-bytes:buffer-not-prefix-plus-nul"))
            && ctx.known("C14:from-bytes:leak-or-wrong-size-free");
        if !tolerated {
            fail!(key, "{} (source kind {})", rep.describe(), c.source % 3);
        }
    }
    let full = text(c);
    let has_nul = full.contains('\0');
    let multi = full.bytes().any(|b| b >= 0x80);
    Ok(Info::new(has_nul || multi || from_bytes)
        .class(["from-str", "from-string", "from-bytes"][(c.source % 3) as usize])
        .class_if(has_nul && !full.ends_with('\0'), "interior-or-leading-NUL")
        .class_if(full.ends_with('\0'), "NUL-terminated input")
        .class_if(!has_nul, "NUL-free")
        .class_if(full.is_empty(), "empty")
        .class_if(multi, "multi-byte"))
}

fn piece() -> impl Strategy<Value = u32> {
    prop_oneof![
        2 => Just(0u32),
        5 => 0x20u32..0x7f,
        1 => 1u32..0x20,
        2 => 0x80u32..0x800,
        2 => prop_oneof![0x800u32..0xd800, 0xe000u32..0x10000],
        2 => 0x10000u32..0x110000,
    ]
}

pub fn strategy() -> impl Strategy<Value = Case> {
    (prop::collection::vec(piece(), 0..24), 0u8..3, 0u8..4).prop_map(|(pieces, source, clones)| Case { pieces, source, clones })
}

pub fn run(ctx: &Ctx) -> i32 {
    if ctx.is_replay() {
        ctx.run("cstring", 1, strategy(), |c| check_with(ctx, c));
    } else {
        // all strings of length <= 3 over a 5-letter alphabet {NUL, 'a', 'é', '€', '😀'} x all sources
        let alpha = [0u32, 0x61, 0xe9, 0x20ac, 0x1f600];
        'outer: for len in 0..=ctx.n(3, 5) as usize {
            for n in 0..alpha.len().pow(len as u32) {
                let mut x = n;
                let mut pieces = Vec::new();
                for _ in 0..len {
                    pieces.push(alpha[x % alpha.len()]);
                    x /= alpha.len();
                }
                for source in 0..3u8 {
                    let c = Case { pieces: pieces.clone(), source, clones: (n % 3) as u8 };
                    if !ctx.eval("cstring", &c, |c| check_with(ctx, c)) {
                        break 'outer;
                    }
                }
            }
        }
        ctx.run("cstring", ctx.n(30_000, 500_000), strategy(), |c| check_with(ctx, c));
    }
    ctx.finish(
        "valid-UTF-8 texts built from whole scalars over {NUL, control, ASCII, 2-, 3-, 4-byte sequences}, length 0..24 scalars (short ones over a 5-letter alphabet enumerated), as &str / String / &[u8] placed at the end of an exact-size heap block, with 0-3 clones. Oracle: the value points to the start of its own heap block of size prefix+1 whose contents are prefix+NUL; as_ref/Deref/Display/Debug/Hash/Eq/Clone/Borrow agree with the prefix; allocator window balanced with matching layouts. Non-trivial = contains a NUL or a multi-byte sequence, or comes from a byte slice",
        &["the tracking allocator of the harness is the observer of buffer size, leaks and free-with-wrong-size"],
        false,
    )
}
