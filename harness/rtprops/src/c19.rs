//! C19 — a waker crossing the boundary wakes the original and is released once.
use proptest::prelude::*;
use serde::{Deserialize, Serialize};
use std::future::Future;
use std::pin::Pin;
use std::sync::atomic::{AtomicBool, AtomicI64, Ordering::SeqCst};
use std::sync::{Arc, Mutex};
use std::task::{Context, Poll, RawWaker, RawWakerVTable, Waker};
use verifkit::{ensure, fail, pick, tracked_confirmed, CaseResult, Ctx, Fail, Info};

/// The caller's waker: counters only, so over-release is observable without UB.
#[derive(Default)]
struct Counters {
    clones: AtomicI64,
    drops: AtomicI64,
    wakes: AtomicI64,
    ended: AtomicBool,
    after_end: AtomicI64,
    /// uses (clone / wake / release) of a clone that had already been released
    used_released: AtomicI64,
}

impl Counters {
    fn touch(&self) {
        if self.ended.load(SeqCst) {
            self.after_end.fetch_add(1, SeqCst);
        }
    }
}

/// Every clone of the caller's waker is its own node (leaked, exempt from the allocation
/// accounting), so that a use of one particular clone after *that clone* was released is visible
/// without undefined behaviour - with a real reference-counted waker it would be a use after free.
struct Node {
    c: &'static Counters,
    alive: AtomicBool,
}

fn new_node(c: &'static Counters) -> *const () {
    verifkit::alloc::exempt(|| Box::leak(Box::new(Node { c, alive: AtomicBool::new(true) }))) as *const Node as *const ()
}

fn node(d: *const ()) -> &'static Node {
    let n = unsafe { &*(d as *const Node) };
    n.c.touch();
    if !n.alive.load(SeqCst) {
        n.c.used_released.fetch_add(1, SeqCst);
    }
    n
}

static VT: RawWakerVTable = RawWakerVTable::new(
    |d| {
        let n = node(d);
        n.c.clones.fetch_add(1, SeqCst);
        RawWaker::new(new_node(n.c), &VT)
    },
    |d| {
        let n = node(d);
        n.c.wakes.fetch_add(1, SeqCst);
        n.c.drops.fetch_add(1, SeqCst);
        n.alive.store(false, SeqCst);
    },
    |d| {
        let n = node(d);
        n.c.wakes.fetch_add(1, SeqCst);
    },
    |d| {
        let n = node(d);
        n.c.drops.fetch_add(1, SeqCst);
        n.alive.store(false, SeqCst);
    },
);

/// A caller's waker that keeps its state elsewhere: the data pointer is NULL (a global-flag
/// waker, `Waker::noop`-style), every clone is the same pair of words.
static NULL_COUNTERS: std::sync::atomic::AtomicPtr<Counters> = std::sync::atomic::AtomicPtr::new(std::ptr::null_mut());

fn nullc() -> &'static Counters {
    let c = unsafe { &*NULL_COUNTERS.load(SeqCst) };
    c.touch();
    c
}

static VT_NULL: RawWakerVTable = RawWakerVTable::new(
    |_| {
        nullc().clones.fetch_add(1, SeqCst);
        RawWaker::new(std::ptr::null(), &VT_NULL)
    },
    |_| {
        let c = nullc();
        c.wakes.fetch_add(1, SeqCst);
        c.drops.fetch_add(1, SeqCst);
    },
    |_| {
        nullc().wakes.fetch_add(1, SeqCst);
    },
    |_| {
        nullc().drops.fetch_add(1, SeqCst);
    },
);

#[derive(Debug, Clone, Serialize, Deserialize, PartialEq)]
pub enum WOp {
    /// clone waker i (0 = the waker handed to poll, when inside a poll)
    Clone(u16),
    WakeByRef(u16),
    /// consume a retained waker by waking it
    Wake(u16),
    Drop(u16),
}

#[derive(Debug, Clone, Serialize, Deserialize)]
pub struct Phase {
    pub during: Vec<WOp>,
    pub after: Vec<WOp>,
    pub after_on_thread: bool,
}

#[derive(Debug, Clone, Serialize, Deserialize)]
pub struct Case {
    /// 0 Future 1 Stream 2 Sink(poll_ready)
    pub via: u8,
    pub phases: Vec<Phase>,
    pub final_drop_order: Vec<u16>,
    pub final_on_thread: bool,
    /// the remaining foreign wakers are owned by a thread that panics: they are dropped while that
    /// thread unwinds
    #[serde(default)]
    pub final_unwinding: bool,
    /// the caller's waker has a null data pointer (its state lives in statics)
    #[serde(default)]
    pub null_data: bool,
}

#[derive(Default)]
struct Shared {
    store: Vec<Waker>,
    wakes_expected: i64,
    /// foreign wakers ever created by cloning
    created: usize,
    max_clones_of_foreign: usize,
    dropped_unwoken: usize,
    used_after_poll: usize,
    error: Option<Fail>,
}

struct Script {
    phases: Vec<Phase>,
    shared: Arc<Mutex<Shared>>,
    counters: &'static Counters,
    poll_no: usize,
}

fn check_counts(c: &Counters, sh: &Shared, when: &str) -> Result<(), Fail> {
    let (cl, dr, wk) = (c.clones.load(SeqCst), c.drops.load(SeqCst), c.wakes.load(SeqCst));
    ensure!(
        wk == sh.wakes_expected,
        "wake-count",
        "{when}: the original waker was woken {wk} times, {} wakes were issued on foreign wakers",
        sh.wakes_expected
    );
    ensure!(
        c.used_released.load(SeqCst) == 0,
        "used-after-release",
        "{when}: a clone of the caller's waker was used (cloned, woken or released again) {} times after that very clone had been released",
        c.used_released.load(SeqCst)
    );
    ensure!(
        dr <= cl,
        "over-release",
        "{when}: the caller's waker was released {dr} times but cloned only {cl} times ({} foreign wakers alive)",
        sh.store.len()
    );
    if !sh.store.is_empty() {
        ensure!(
            cl - dr >= 1,
            "released-while-alive",
            "{when}: {} foreign wakers are alive but every clone of the caller's waker has been released (clones {cl}, releases {dr})",
            sh.store.len()
        );
    }
    Ok(())
}

/// Execute ops; `cx` is Some inside a poll.
fn exec(ops: &[WOp], cx: Option<&Waker>, sh: &mut Shared, c: &Counters, step_check: bool, tag: &str) {
    for (k, op) in ops.iter().enumerate() {
        if sh.error.is_some() {
            return;
        }
        // number of addressable wakers: [cx] + store
        let base = cx.is_some() as usize;
        let n = base + sh.store.len();
        if n == 0 {
            continue;
        }
        match op {
            WOp::Clone(i) => {
                let i = pick(*i, n);
                let w = if i < base { cx.unwrap().clone() } else { sh.store[i - base].clone() };
                if i >= base {
                    sh.max_clones_of_foreign += 1;
                }
                sh.store.push(w);
                sh.created += 1;
            }
            WOp::WakeByRef(i) => {
                let i = pick(*i, n);
                if i < base {
                    cx.unwrap().wake_by_ref();
                } else {
                    sh.store[i - base].wake_by_ref();
                }
                sh.wakes_expected += 1;
                if cx.is_none() {
                    sh.used_after_poll += 1;
                }
            }
            WOp::Wake(i) => {
                if sh.store.is_empty() {
                    continue;
                }
                let i = pick(*i, sh.store.len());
                let w = sh.store.remove(i);
                w.wake();
                sh.wakes_expected += 1;
                if cx.is_none() {
                    sh.used_after_poll += 1;
                }
            }
            WOp::Drop(i) => {
                if sh.store.is_empty() {
                    continue;
                }
                let i = pick(*i, sh.store.len());
                drop(sh.store.remove(i));
                sh.dropped_unwoken += 1;
            }
        }
        if step_check {
            if let Err(e) = check_counts(c, sh, &format!("{tag} op {k} {op:?}")) {
                sh.error = Some(e);
            }
        }
    }
}

impl Script {
    fn on_poll(&mut self, cx: &mut Context<'_>) -> bool {
        let ph = self.phases.get(self.poll_no).cloned();
        let no = self.poll_no;
        self.poll_no += 1;
        match ph {
            Some(p) => {
                let mut sh = self.shared.lock().unwrap();
                exec(&p.during, Some(cx.waker()), &mut sh, self.counters, true, &format!("poll {no}"));
                false
            }
            None => true,
        }
    }
}

struct Fut(Script);
impl Future for Fut {
    type Output = u32;
    fn poll(mut self: Pin<&mut Self>, cx: &mut Context<'_>) -> Poll<u32> {
        if self.0.on_poll(cx) {
            Poll::Ready(7)
        } else {
            Poll::Pending
        }
    }
}

struct Strm(Script);
impl futures::Stream for Strm {
    type Item = u32;
    fn poll_next(mut self: Pin<&mut Self>, cx: &mut Context<'_>) -> Poll<Option<u32>> {
        if self.0.on_poll(cx) {
            Poll::Ready(None)
        } else {
            Poll::Pending
        }
    }
}

struct Snk(Script);
impl futures::Sink<u32> for Snk {
    type Error = u8;
    fn poll_ready(mut self: Pin<&mut Self>, cx: &mut Context<'_>) -> Poll<Result<(), u8>> {
        if self.0.on_poll(cx) {
            Poll::Ready(Ok(()))
        } else {
            Poll::Pending
        }
    }
    fn start_send(self: Pin<&mut Self>, _: u32) -> Result<(), u8> {
        Ok(())
    }
    fn poll_flush(mut self: Pin<&mut Self>, cx: &mut Context<'_>) -> Poll<Result<(), u8>> {
        if self.0.on_poll(cx) {
            Poll::Ready(Ok(()))
        } else {
            Poll::Pending
        }
    }
    fn poll_close(self: Pin<&mut Self>, _: &mut Context<'_>) -> Poll<Result<(), u8>> {
        Poll::Ready(Ok(()))
    }
}

thread_local! {
    static PREVIOUS: std::cell::Cell<Option<&'static Counters>> = const { std::cell::Cell::new(None) };
}

fn body(case: &Case) -> Result<(usize, usize, usize, usize), Fail> {
    // nothing may have touched the previous case's waker after its history ended
    if let Some(prev) = PREVIOUS.with(|p| p.take()) {
        ensure!(
            prev.after_end.load(SeqCst) == 0,
            "touched-after-end",
            "the caller's waker of the preceding case was used {} times after all foreign wakers were gone",
            prev.after_end.load(SeqCst)
        );
    }
    // the counters live in a leaked (exempt) allocation: wakers may legitimately outlive nothing
    // here, but a defect could touch them late
    let counters: &'static Counters = verifkit::alloc::exempt(|| Box::leak(Box::new(Counters::default())));
    let shared = Arc::new(Mutex::new(Shared::default()));
    let script = Script { phases: case.phases.clone(), shared: shared.clone(), counters, poll_no: 0 };
    let w0 = std::mem::ManuallyDrop::new(if case.null_data {
        NULL_COUNTERS.store(counters as *const Counters as *mut Counters, SeqCst);
        unsafe { Waker::from_raw(RawWaker::new(std::ptr::null(), &VT_NULL)) }
    } else {
        unsafe { Waker::from_raw(RawWaker::new(new_node(counters), &VT)) }
    });
    let mut cx = Context::from_waker(&w0);

    // one poller per kind, all through opaque cglue objects
    enum Obj {
        F(Pin<Box<dyn Future<Output = u32>>>),
        S(Pin<Box<dyn futures::Stream<Item = u32>>>),
        K(Pin<Box<dyn futures::Sink<u32, Error = u8>>>, bool),
    }
    let mut obj = match case.via % 3 {
        0 => Obj::F(Box::pin(cglue::trait_obj!(Fut(script) as Future))),
        1 => Obj::S(Box::pin(cglue::trait_obj!(Strm(script) as Stream))),
        _ => Obj::K(Box::pin(cglue::trait_obj!(Snk(script) as Sink)), false),
    };

    for (pi, ph) in case.phases.iter().enumerate() {
        let done = match &mut obj {
            Obj::F(f) => f.as_mut().poll(&mut cx).is_ready(),
            Obj::S(s) => s.as_mut().poll_next(&mut cx).is_ready(),
            Obj::K(k, flush) => {
                *flush = !*flush;
                if *flush {
                    k.as_mut().poll_ready(&mut cx).is_ready()
                } else {
                    k.as_mut().poll_flush(&mut cx).is_ready()
                }
            }
        };
        ensure!(!done, "poll-result", "poll {pi} reported Ready although the implementor returned Pending");
        {
            let mut sh = shared.lock().unwrap();
            if let Some(e) = sh.error.take() {
                return Err(e);
            }
            check_counts(counters, &sh, &format!("after poll {pi} returned"))?;
        }
        if ph.after_on_thread {
            let sh2 = shared.clone();
            let ops = ph.after.clone();
            std::thread::scope(|s| {
                s.spawn(move || {
                    let mut sh = sh2.lock().unwrap();
                    exec(&ops, None, &mut sh, counters, false, "thread");
                });
            });
        } else {
            let mut sh = shared.lock().unwrap();
            exec(&ph.after, None, &mut sh, counters, true, &format!("after poll {pi}"));
        }
        let mut sh = shared.lock().unwrap();
        if let Some(e) = sh.error.take() {
            return Err(e);
        }
        check_counts(counters, &sh, &format!("after the post-poll ops of phase {pi}"))?;
    }
    // the final poll completes
    let (done, out_ok) = match &mut obj {
        Obj::F(f) => match f.as_mut().poll(&mut cx) {
            Poll::Ready(v) => (true, v == 7),
            _ => (false, false),
        },
        Obj::S(s) => match s.as_mut().poll_next(&mut cx) {
            Poll::Ready(None) => (true, true),
            Poll::Ready(Some(_)) => (true, false),
            _ => (false, false),
        },
        Obj::K(k, _) => match k.as_mut().poll_ready(&mut cx) {
            Poll::Ready(Ok(())) => (true, true),
            Poll::Ready(Err(_)) => (true, false),
            _ => (false, false),
        },
    };
    ensure!(done && out_ok, "poll-result", "the final poll did not deliver the implementor's Ready value");
    drop(obj);
    // release the remaining foreign wakers in a generated order
    let finish = |sh: &mut Shared| -> Result<(), Fail> {
        let mut k = 0;
        while !sh.store.is_empty() {
            let i = pick(case.final_drop_order.get(k).copied().unwrap_or(0), sh.store.len());
            k += 1;
            drop(sh.store.remove(i));
            sh.dropped_unwoken += 1;
            check_counts(counters, sh, &format!("final drop {k}"))?;
        }
        Ok(())
    };
    if case.final_unwinding {
        // move the retained wakers into a thread that panics; its locals die during unwinding
        let owned: Vec<Waker> = std::mem::take(&mut shared.lock().unwrap().store);
        let n = owned.len();
        let r = std::thread::spawn(move || {
            let _held = owned;
            std::panic::resume_unwind(Box::new("planned panic of a thread that holds wakers"));
        })
        .join();
        ensure!(r.is_err(), "harness", "the planned panic did not happen");
        let mut sh = shared.lock().unwrap();
        sh.dropped_unwoken += n;
    } else if case.final_on_thread {
        let sh2 = shared.clone();
        let r = std::thread::scope(|s| s.spawn(move || finish(&mut sh2.lock().unwrap())).join().unwrap());
        r?;
    } else {
        finish(&mut shared.lock().unwrap())?;
    }
    let sh = shared.lock().unwrap();
    let (cl, dr) = (counters.clones.load(SeqCst), counters.drops.load(SeqCst));
    ensure!(
        cl == dr,
        if dr > cl { "over-release" } else { "clone-leaked" },
        "after the last foreign waker was dropped: the caller's waker was cloned {cl} times and released {dr} times"
    );
    ensure!(counters.wakes.load(SeqCst) == sh.wakes_expected, "wake-count", "final wake count {} != {}", counters.wakes.load(SeqCst), sh.wakes_expected);
    counters.ended.store(true, SeqCst);
    PREVIOUS.with(|p| p.set(Some(counters)));
    Ok((sh.created, sh.max_clones_of_foreign, sh.dropped_unwoken, sh.used_after_poll))
}

pub fn check(case: &Case) -> CaseResult {
    let threaded = case.final_on_thread || case.final_unwinding || case.phases.iter().any(|p| p.after_on_thread);
    let (r, rep) = tracked_confirmed(|| body(case));
    let (created, foreign_clones, dropped_unwoken, after) = r?;
    if !rep.misuses.is_empty() || (!threaded && !rep.leaked.is_empty()) {
        fail!(if rep.misuses.is_empty() { "leak" } else { "alloc-misuse" }, "{}", rep.describe());
    }
    Ok(Info::new(created >= 2 || dropped_unwoken > 0 || after > 0)
        .class(["Future", "Stream", "Sink"][(case.via % 3) as usize])
        .class_if(foreign_clones > 0, "foreign waker cloned again")
        .class_if(dropped_unwoken > 0, "dropped without waking")
        .class_if(after > 0, "used after the poll")
        .class_if(threaded, "other thread"))
}

fn wop() -> impl Strategy<Value = WOp> {
    prop_oneof![
        4 => any::<u16>().prop_map(WOp::Clone),
        2 => any::<u16>().prop_map(WOp::WakeByRef),
        2 => any::<u16>().prop_map(WOp::Wake),
        2 => any::<u16>().prop_map(WOp::Drop),
    ]
}

pub fn strategy() -> impl Strategy<Value = Case> {
    let phase = (prop::collection::vec(wop(), 0..8), prop::collection::vec(wop(), 0..8), prop::bool::weighted(0.06))
        .prop_map(|(during, after, after_on_thread)| Phase { during, after, after_on_thread });
    (0u8..3, prop::collection::vec(phase, 0..5), prop::collection::vec(any::<u16>(), 0..8), prop::bool::weighted(0.04), prop::bool::weighted(0.06), prop::bool::weighted(0.25))
        .prop_map(|(via, phases, final_drop_order, final_on_thread, final_unwinding, null_data)| Case { via, phases, final_drop_order, final_on_thread, final_unwinding, null_data })
}

pub fn run(ctx: &Ctx) -> i32 {
    ctx.run("waker-histories", ctx.n(20_000, 400_000), strategy(), check);
    ctx.finish(
        "histories over {clone, wake, wake_by_ref, drop} on the tree of wakers obtained inside polls of an opaque Future / Stream / Sink object (cglue ext traits), split into ops during each poll, ops on retained wakers after the poll returned (optionally on another thread) and a generated final drop order (sometimes inside a thread that is unwinding from a panic); the caller's waker is a hand-rolled RawWakerVTable over counters. Oracle after every op: wakes seen by the original == wakes issued; releases <= clones; clones - releases >= 1 while a foreign waker is alive; at the end clones == releases and nothing touches the original afterwards. Non-trivial = >= 2 foreign wakers created, or one dropped without waking, or one used after the poll",
        &["thread interleavings are not owned by the harness; threaded phases are checked at quiescence only"],
        false,
    )
}
