#![no_main]
mod common;
target!("C06", "boxes", rtprops::boxes::Case, rtprops::boxes::check);
