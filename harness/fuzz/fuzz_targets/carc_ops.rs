#![no_main]
mod common;
target!("C10", "single-thread", rtprops::c10::Case, rtprops::c10::check);
