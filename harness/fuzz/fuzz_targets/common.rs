// Shared by all targets: decode the fuzzer's bytes into the property's own case type
// (serde-based structural decoder, verifkit::fuzzde), run the property's check (the oracle is inside the target), and
// on a violation save the decoded case as a replay file before aborting.
#[global_allocator]
static A: verifkit::alloc::Tracking = verifkit::alloc::Tracking;

pub fn report<T: serde::Serialize>(prop: &str, sub: &str, case: &T, f: verifkit::Fail) -> ! {
    let _g = verifkit::alloc::Exempt::new();
    let dir = std::env::var("VERIF_FUZZ_OUT").unwrap_or_else(|_| ".".to_string());
    let body = serde_json::json!({"property": prop, "engine": "fuzz", "sub": sub, "key": f.key, "what": f.what, "case": case});
    let txt = serde_json::to_string_pretty(&body).unwrap();
    let mut h = verifkit::Fnv::new();
    h.str(&txt);
    let path = format!("{dir}/{prop}-fuzz-{:012x}.json", h.get() & 0xffff_ffff_ffff);
    let _ = std::fs::write(&path, txt);
    eprintln!("VIOLATION property={prop} replay={path}\n  {sub} [{}]: {}", f.key, f.what);
    std::process::abort();
}

#[macro_export]
macro_rules! target {
    ($prop:expr, $sub:expr, $case:ty, $check:expr) => {
        libfuzzer_sys::fuzz_target!(|data: &[u8]| {
            // libfuzzer-sys aborts on every panic; expected panics (out-of-range insert/remove,
            // unwrap of None, ...) are part of the oracles and are caught by the checks
            static HOOK: std::sync::Once = std::sync::Once::new();
            HOOK.call_once(verifkit::quiet_panics);
            if let Some(case) = verifkit::fuzzde::from_fuzz_bytes::<$case>(data) {
                let r = verifkit::guard(|| $check(&case));
                if let Err(f) = r {
                    common::report($prop, $sub, &case, f);
                }
            }
        });
    };
}
