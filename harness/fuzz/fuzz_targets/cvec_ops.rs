#![no_main]
mod common;
target!("C11", "random-long", rtprops::c11::Case, rtprops::c11::check);
