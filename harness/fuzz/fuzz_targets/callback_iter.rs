#![no_main]
mod common;
target!("C15", "iterators", rtprops::c15::ItCase, rtprops::c15::check_it);
