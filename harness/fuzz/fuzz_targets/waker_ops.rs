#![no_main]
mod common;
target!("C19", "waker-histories", rtprops::c19::Case, rtprops::c19::check);
