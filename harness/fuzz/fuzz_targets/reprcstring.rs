#![no_main]
mod common;
// C14's check needs the known-findings context; none is known any more, so an empty one is used
fn check(c: &rtprops::c14::Case) -> verifkit::CaseResult {
    thread_local! { static CTX: verifkit::Ctx = verifkit::Ctx::new(verifkit::Args { prop: "C14".into(), tier: verifkit::Tier::Quick, seed: 0, out: None, known: Default::default(), replay: None, journal: None, extra: vec![] }); }
    CTX.with(|ctx| rtprops::c14::check_with(ctx, c))
}
target!("C14", "cstring", rtprops::c14::Case, check);
