#![no_main]
mod common;
target!("C12", "utf8-random", rtprops::c12::Utf8Case, rtprops::c12::check_utf8);
