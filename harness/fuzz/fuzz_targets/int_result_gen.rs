#![no_main]
mod common;
target!("C13", "generated", rtprops::c13::wrapped::WCase, rtprops::c13::wrapped::check);
