#![no_main]
mod common;
target!("C13", "encode-decode", rtprops::c13::Case, rtprops::c13::check);
