#![no_main]
mod common;
target!("C16", "views", rtprops::c16::Case, rtprops::c16::check);
