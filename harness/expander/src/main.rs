//! Runs /repo's code generator (`cglue_gen`) in-process as an ordinary library.
//!
//! expander emit   <defs.json> <out-dir>     write expansions as plain source modules (lint crate)
//! expander struct <defs.json> <result.json> structural FFI-safety oracle over the token stream
//! expander digest <defs.json> <out.json>    ordered (struct, fields) lists of every repr(C) struct
//! expander reprs  <src-dir>   <result.json> every public struct/enum/union of the runtime crate has a C repr
//!
//! defs.json: [{"id": "...", "kind": "trait"|"group", "src": "<item or macro arguments>", ...}]
use proc_macro2::TokenStream;
use quote::ToTokens;
use serde::{Deserialize, Serialize};
use std::str::FromStr;
use syn::visit::Visit;

#[derive(Deserialize, Serialize, Clone)]
struct Def {
    id: String,
    kind: String,
    src: String,
    #[serde(default)]
    nontrivial: bool,
    #[serde(default)]
    extra: String,
}

fn expand(d: &Def) -> Result<TokenStream, String> {
    let ts = TokenStream::from_str(&d.src).map_err(|e| format!("lex: {e}"))?;
    let r = std::panic::catch_unwind(|| match d.kind.as_str() {
        "trait" => {
            // strip the #[cglue_trait] attribute itself if present
            let mut tr: syn::ItemTrait = syn::parse2(ts).map_err(|e| format!("parse: {e}"))?;
            tr.attrs.retain(|a| !a.path.is_ident("cglue_trait"));
            Ok(cglue_gen::traits::gen_trait(tr, None))
        }
        "group" => {
            let g: cglue_gen::trait_groups::TraitGroup = syn::parse2(ts).map_err(|e| format!("parse: {e}"))?;
            Ok(g.create_group())
        }
        k => Err(format!("unknown kind {k}")),
    });
    match r {
        Ok(x) => x,
        Err(p) => Err(format!(
            "generator panicked: {}",
            p.downcast_ref::<String>().cloned().or_else(|| p.downcast_ref::<&str>().map(|s| s.to_string())).unwrap_or_default()
        )),
    }
}

fn has_repr_c(attrs: &[syn::Attribute]) -> Option<String> {
    for a in attrs {
        if a.path.is_ident("repr") {
            let t = a.tokens.to_string().replace(' ', "");
            return Some(t);
        }
    }
    None
}

fn is_phantom(ty: &syn::Type) -> bool {
    let s = ty.to_token_stream().to_string().replace(' ', "");
    s.contains("PhantomData<")
}

/// Types that must not appear in an `extern "C"` signature.
struct Unsafe(Vec<String>);
impl<'ast> Visit<'ast> for Unsafe {
    fn visit_type(&mut self, t: &'ast syn::Type) {
        match t {
            syn::Type::Reference(r) => match &*r.elem {
                syn::Type::Slice(_) => self.0.push(format!("slice reference `{}`", t.to_token_stream())),
                syn::Type::Path(p) if p.path.is_ident("str") => self.0.push(format!("str reference `{}`", t.to_token_stream())),
                _ => {}
            },
            syn::Type::Slice(_) => self.0.push(format!("bare slice `{}`", t.to_token_stream())),
            syn::Type::Tuple(tp) if !tp.elems.is_empty() => self.0.push(format!("tuple `{}`", t.to_token_stream())),
            syn::Type::BareFn(f) => {
                let c_abi = f.abi.as_ref().and_then(|a| a.name.as_ref()).map(|n| n.value() == "C").unwrap_or(false);
                if !c_abi {
                    self.0.push(format!("function pointer without extern \"C\" `{}`", t.to_token_stream()));
                }
            }
            syn::Type::Path(p) => {
                if let Some(seg) = p.path.segments.last() {
                    let name = seg.ident.to_string();
                    // (ResU / ResIo are the harness' own aliases of std's Result)
                    if (name == "Result" || name == "ResU" || name == "ResIo") && !p.path.to_token_stream().to_string().contains("CResult") {
                        self.0.push(format!("Rust Result `{}`", t.to_token_stream()));
                    }
                    if name == "Option" {
                        if let syn::PathArguments::AngleBracketed(a) = &seg.arguments {
                            if let Some(syn::GenericArgument::Type(inner)) = a.args.first() {
                                let npo = matches!(inner, syn::Type::Reference(_) | syn::Type::BareFn(_))
                                    || inner.to_token_stream().to_string().contains("NonNull")
                                    || inner.to_token_stream().to_string().contains("NonZero")
                                    || inner.to_token_stream().to_string().contains("extern");
                                if !npo {
                                    self.0.push(format!("Option of a non-nullable-optimised type `{}`", t.to_token_stream()));
                                }
                            }
                        }
                    }
                    if name == "String" || name == "Vec" || name == "Box" {
                        self.0.push(format!("Rust-layout std type `{}`", t.to_token_stream()));
                    }
                }
            }
            _ => {}
        }
        syn::visit::visit_type(self, t);
    }
}

#[derive(Serialize, Default)]
struct StructInfo {
    name: String,
    fields: Vec<(String, String)>,
}

/// Walk all items (also nested modules) of an expansion.
fn walk_items<'a>(items: &'a [syn::Item], out: &mut Vec<&'a syn::Item>) {
    for it in items {
        out.push(it);
        if let syn::Item::Mod(m) = it {
            // test-only helper modules are not shipped
            let test_only = m.attrs.iter().any(|a| a.path.is_ident("cfg") && a.tokens.to_string().replace(' ', "") == "(test)");
            if test_only {
                continue;
            }
            if let Some((_, inner)) = &m.content {
                walk_items(inner, out);
            }
        }
    }
}

fn structural(d: &Def, ts: &TokenStream) -> Result<(usize, usize), verifkit::Fail> {
    let file: syn::File = syn::parse2(ts.clone()).map_err(|e| verifkit::Fail::new("harness", format!("expansion does not parse as a file: {e}")))?;
    let mut items = Vec::new();
    walk_items(&file.items, &mut items);
    let mut n_fields = 0;
    let mut n_fns = 0;
    for it in items {
        match it {
            syn::Item::Struct(s) => {
                let name = s.ident.to_string();
                let zst_marker = s.fields.iter().all(|f| is_phantom(&f.ty)) || s.fields.is_empty();
                match has_repr_c(&s.attrs) {
                    Some(r) if r.contains("C") || r.contains("transparent") => {}
                    _ if zst_marker => {}
                    other => {
                        return Err(verifkit::Fail::new(
                            "C03:no-c-repr",
                            format!("{}: generated struct `{name}` has no defined C representation (repr attribute: {:?})", d.id, other),
                        ))
                    }
                }
                if name.ends_with("Vtbl") {
                    for f in s.fields.iter() {
                        if is_phantom(&f.ty) {
                            continue;
                        }
                        n_fields += 1;
                        let fname = f.ident.as_ref().map(|i| i.to_string()).unwrap_or_default();
                        match &f.ty {
                            syn::Type::BareFn(bf) => {
                                let c_abi = bf.abi.as_ref().and_then(|a| a.name.as_ref()).map(|n| n.value() == "C").unwrap_or(false);
                                if !c_abi {
                                    return Err(verifkit::Fail::new("C03:vtable-abi", format!("{}: vtable entry `{fname}` of `{name}` is not an extern \"C\" function pointer: `{}`", d.id, f.ty.to_token_stream())));
                                }
                                let mut u = Unsafe(Vec::new());
                                for a in bf.inputs.iter() {
                                    u.visit_type(&a.ty);
                                }
                                if let syn::ReturnType::Type(_, t) = &bf.output {
                                    u.visit_type(t);
                                }
                                if let Some(bad) = u.0.first() {
                                    return Err(verifkit::Fail::new("C03:vtable-type", format!("{}: vtable entry `{fname}` of `{name}` carries a layout-unspecified type: {bad}; full signature `{}`", d.id, f.ty.to_token_stream())));
                                }
                            }
                            other => {
                                return Err(verifkit::Fail::new("C03:vtable-abi", format!("{}: vtable field `{fname}` of `{name}` is not a function pointer: `{}`", d.id, other.to_token_stream())));
                            }
                        }
                    }
                }
            }
            syn::Item::Enum(e) => {
                if has_repr_c(&e.attrs).is_none() {
                    return Err(verifkit::Fail::new("C03:no-c-repr", format!("{}: generated enum `{}` has no repr", d.id, e.ident)));
                }
            }
            syn::Item::Fn(f) => {
                if f.sig.ident.to_string().starts_with("cglue_wrapped_") {
                    n_fns += 1;
                    let c_abi = f.sig.abi.as_ref().and_then(|a| a.name.as_ref()).map(|n| n.value() == "C").unwrap_or(false);
                    if !c_abi {
                        return Err(verifkit::Fail::new("C03:vtable-abi", format!("{}: wrapper `{}` is not extern \"C\"", d.id, f.sig.ident)));
                    }
                    let mut u = Unsafe(Vec::new());
                    for a in f.sig.inputs.iter() {
                        if let syn::FnArg::Typed(t) = a {
                            u.visit_type(&t.ty);
                        }
                    }
                    if let syn::ReturnType::Type(_, t) = &f.sig.output {
                        u.visit_type(t);
                    }
                    if let Some(bad) = u.0.first() {
                        return Err(verifkit::Fail::new("C03:vtable-type", format!("{}: wrapper `{}` carries a layout-unspecified type: {bad}", d.id, f.sig.ident)));
                    }
                }
            }
            _ => {}
        }
    }
    Ok((n_fields, n_fns))
}

fn struct_list(ts: &TokenStream) -> Vec<StructInfo> {
    let file: syn::File = match syn::parse2(ts.clone()) {
        Ok(f) => f,
        Err(_) => return vec![],
    };
    let mut items = Vec::new();
    walk_items(&file.items, &mut items);
    let mut out = Vec::new();
    for it in items {
        if let syn::Item::Struct(s) = it {
            if has_repr_c(&s.attrs).is_some() {
                out.push(StructInfo {
                    name: s.ident.to_string(),
                    fields: s
                        .fields
                        .iter()
                        .map(|f| (f.ident.as_ref().map(|i| i.to_string()).unwrap_or_default(), f.ty.to_token_stream().to_string()))
                        .collect(),
                });
            }
        }
    }
    out
}

fn main() {
    let a: Vec<String> = std::env::args().collect();
    let mode = a.get(1).map(|s| s.as_str()).unwrap_or("");
    match mode {
        "emit" => {
            let defs: Vec<Def> = serde_json::from_str(&std::fs::read_to_string(&a[2]).unwrap()).unwrap();
            let out = std::path::Path::new(&a[3]);
            let mut report = Vec::new();
            for d in &defs {
                match expand(d) {
                    Ok(ts) => {
                        std::fs::write(out.join(format!("{}.rs", d.id)), format!("{}\n{}\n{}\n", d.extra.split("//@@").next().unwrap_or(""), ts, d.extra.split("//@@").nth(1).unwrap_or(""))).unwrap();
                        report.push(serde_json::json!({"id": d.id, "ok": true}));
                    }
                    Err(e) => report.push(serde_json::json!({"id": d.id, "ok": false, "error": e})),
                }
            }
            println!("{}", serde_json::to_string(&report).unwrap());
        }
        "struct" => {
            // verifkit protocol: expander struct <defs.json> <PROP> [--out ..]
            let defs: Vec<Def> = serde_json::from_str(&std::fs::read_to_string(&a[2]).unwrap()).unwrap();
            let args = verifkit::Args {
                prop: a[3].clone(),
                tier: verifkit::Tier::Quick,
                seed: 0,
                out: a.iter().position(|x| x == "--out").map(|i| a[i + 1].clone().into()),
                known: Default::default(),
                replay: a.iter().position(|x| x == "--replay").map(|i| a[i + 1].clone().into()),
                journal: None,
                extra: vec![],
            };
            let ctx = verifkit::Ctx::new(args);
            let replay: Option<Def> = ctx.replay_for("structural");
            let list: Vec<Def> = match (&replay, ctx.is_replay()) {
                (Some(d), _) => vec![d.clone()],
                (None, true) => vec![],
                _ => defs,
            };
            for d in &list {
                let ok = ctx.eval("structural", d, |d| {
                    let ts = expand(d).map_err(|e| verifkit::Fail::new("generator-rejects", format!("{}: {e}", d.id)))?;
                    let (nf, nfn) = structural(d, &ts)?;
                    Ok(verifkit::Info::new(d.nontrivial).class(d.kind.clone()).class_if(nf > 1, "several vtable entries").class_if(nfn > 0, "has wrappers"))
                });
                if !ok {
                    break;
                }
            }
            let code = ctx.finish("single-method traits enumerating receivers x argument shapes x return shapes x int_result, plus random multi-method traits and groups, expanded in-process by /repo's cglue_gen used as a library; the expansion is parsed with syn: every non-marker field of every ...Vtbl struct and every cglue_wrapped_* function must be extern \"C\" and must not mention slices, str, non-unit tuples, Rust Result, non-nullable Option, Rust-ABI fn pointers or std containers; every generated struct/enum carries repr(C)/transparent. Non-trivial = the definition contains a shape that needs wrapping or an associated-type return", &["syntactic check; the compiler-lint oracle is the authoritative half of this property"], false);
            std::process::exit(code);
        }
        "digest" => {
            let defs: Vec<Def> = serde_json::from_str(&std::fs::read_to_string(&a[2]).unwrap()).unwrap();
            let mut out = serde_json::Map::new();
            for d in &defs {
                let v = match expand(d) {
                    Ok(ts) => serde_json::to_value(struct_list(&ts)).unwrap(),
                    Err(e) => serde_json::json!({"error": e}),
                };
                out.insert(d.id.clone(), v);
                // the same definition through the `#[cglue_trait_ext]` route (an external trait's
                // interface re-declared): it must give the very same vtable
                if d.kind == "trait" {
                    let ext = std::panic::catch_unwind(|| {
                        let ts = TokenStream::from_str(&d.src).ok()?;
                        let mut tr: syn::ItemTrait = syn::parse2(ts).ok()?;
                        tr.attrs.retain(|a| !a.path.is_ident("cglue_trait"));
                        let ext_ident = quote::format_ident!("{}Ext", tr.ident);
                        Some(cglue_gen::traits::gen_trait(tr, Some(&ext_ident)))
                    });
                    let v = match ext {
                        Ok(Some(ts)) => serde_json::to_value(struct_list(&ts)).unwrap(),
                        _ => serde_json::json!({"error": "ext expansion failed"}),
                    };
                    out.insert(format!("{}#ext", d.id), v);
                }
            }
            std::fs::write(&a[3], serde_json::to_string(&out).unwrap()).unwrap();
        }
        "reprs" => {
            let mut bad = Vec::new();
            let mut n = 0;
            fn rec(dir: &std::path::Path, bad: &mut Vec<String>, n: &mut usize) {
                for e in std::fs::read_dir(dir).unwrap().flatten() {
                    let p = e.path();
                    if p.is_dir() {
                        if p.file_name().map(|f| f == "tests").unwrap_or(false) {
                            continue;
                        }
                        rec(&p, bad, n);
                    } else if p.extension().map(|x| x == "rs").unwrap_or(false) {
                        let f: syn::File = match syn::parse_file(&std::fs::read_to_string(&p).unwrap()) {
                            Ok(f) => f,
                            Err(_) => continue,
                        };
                        let mut items = Vec::new();
                        walk_items(&f.items, &mut items);
                        for it in items {
                            let (vis, name, attrs, zst) = match it {
                                syn::Item::Struct(s) => (&s.vis, s.ident.to_string(), &s.attrs, s.fields.is_empty() || s.fields.iter().all(|f| is_phantom(&f.ty) || f.ty.to_token_stream().to_string() == "()")),
                                syn::Item::Enum(e) => (&e.vis, e.ident.to_string(), &e.attrs, false),
                                syn::Item::Union(u) => (&u.vis, u.ident.to_string(), &u.attrs, false),
                                _ => continue,
                            };
                            if !matches!(vis, syn::Visibility::Public(_)) || zst {
                                continue;
                            }
                            *n += 1;
                            if has_repr_c(attrs).is_none() {
                                bad.push(format!("{}: {}", p.display(), name));
                            }
                        }
                    }
                }
            }
            rec(std::path::Path::new(&a[2]), &mut bad, &mut n);
            std::fs::write(&a[3], serde_json::to_string(&serde_json::json!({"public_types": n, "without_repr": bad})).unwrap()).unwrap();
        }
        _ => {
            eprintln!("usage: expander emit|struct|digest|reprs ...");
            std::process::exit(2);
        }
    }
}
