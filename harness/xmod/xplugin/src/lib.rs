//! The plugin side: built as a cdylib by its own cargo invocation.
use cglue::prelude::v1::*;
use std::sync::atomic::Ordering::SeqCst;
use xapi::*;

#[global_allocator]
static A: xapi::tagalloc::Tagging = xapi::tagalloc::Tagging { tag: 0x504c_5547_494e_0001 };

#[no_mangle]
pub extern "C" fn xm_create(ctx: &CArc<cglue::trait_group::c_void>, seed: u64) -> MakerArcBox<'static> {
    trait_obj!((MakerImp::new(seed), ctx.clone()) as Maker)
}

#[no_mangle]
pub extern "C" fn xm_live_instances() -> i64 {
    LIVE_INSTANCES.load(SeqCst)
}

#[no_mangle]
pub extern "C" fn xm_live_blocks() -> i64 {
    xapi::tagalloc::LIVE_BLOCKS.load(SeqCst)
}

#[no_mangle]
pub extern "C" fn xm_foreign_frees() -> u64 {
    xapi::tagalloc::FOREIGN_FREES.load(SeqCst)
}

#[no_mangle]
pub extern "C" fn xm_layout_digest() -> u64 {
    layout_digest()
}

#[no_mangle]
pub extern "C" fn xm_rustc() -> u64 {
    // distinguishes builds in the evidence
    option_env!("XM_BUILD_ID").and_then(|s| s.parse().ok()).unwrap_or(0)
}
