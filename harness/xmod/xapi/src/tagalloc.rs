//! A global allocator that tags every block with the identity of the module that allocated it
//! and checks the tag on free / realloc: memory must be released by the module that allocated it.
use std::alloc::{GlobalAlloc, Layout, System};
use std::sync::atomic::{AtomicI64, AtomicU64, Ordering::SeqCst};

pub struct Tagging {
    pub tag: u64,
}

pub static LIVE_BLOCKS: AtomicI64 = AtomicI64::new(0);
pub static FOREIGN_FREES: AtomicU64 = AtomicU64::new(0);
pub static FOREIGN_TAG_SEEN: AtomicU64 = AtomicU64::new(0);

const HDR: usize = 32;

unsafe impl GlobalAlloc for Tagging {
    unsafe fn alloc(&self, l: Layout) -> *mut u8 {
        let pad = HDR.max(l.align());
        let base = System.alloc(Layout::from_size_align_unchecked(l.size() + pad, l.align().max(16)));
        if base.is_null() {
            return base;
        }
        let p = base.add(pad);
        (p.sub(8) as *mut u64).write_unaligned(self.tag);
        (p.sub(16) as *mut u64).write_unaligned(pad as u64);
        LIVE_BLOCKS.fetch_add(1, SeqCst);
        p
    }
    unsafe fn dealloc(&self, p: *mut u8, l: Layout) {
        let tag = (p.sub(8) as *const u64).read_unaligned();
        let pad = (p.sub(16) as *const u64).read_unaligned() as usize;
        if tag != self.tag {
            FOREIGN_FREES.fetch_add(1, SeqCst);
            FOREIGN_TAG_SEEN.store(tag, SeqCst);
        } else {
            LIVE_BLOCKS.fetch_sub(1, SeqCst);
        }
        (p.sub(8) as *mut u64).write_unaligned(0xDEAD_0000_0000_DEAD);
        System.dealloc(p.sub(pad), Layout::from_size_align_unchecked(l.size() + pad, l.align().max(16)));
    }
    unsafe fn realloc(&self, p: *mut u8, l: Layout, new_size: usize) -> *mut u8 {
        let tag = (p.sub(8) as *const u64).read_unaligned();
        if tag != self.tag {
            FOREIGN_FREES.fetch_add(1, SeqCst);
            FOREIGN_TAG_SEEN.store(tag, SeqCst);
        }
        let np = self.alloc(Layout::from_size_align_unchecked(new_size, l.align()));
        if !np.is_null() {
            std::ptr::copy_nonoverlapping(p, np, l.size().min(new_size));
            // release the old block with the bookkeeping of whoever owns it
            let pad = (p.sub(16) as *const u64).read_unaligned() as usize;
            if tag == self.tag {
                LIVE_BLOCKS.fetch_sub(1, SeqCst);
            }
            System.dealloc(p.sub(pad), Layout::from_size_align_unchecked(l.size() + pad, l.align().max(16)));
        }
        np
    }
}
