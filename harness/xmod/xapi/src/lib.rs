//! The API shared (as source) by the plugin and the host, compiled separately into each.
pub use cglue::*;
use cglue::prelude::v1::*;
use std::sync::atomic::{AtomicI64, AtomicU64, Ordering::SeqCst};

pub mod tagalloc;

pub static LIVE_INSTANCES: AtomicI64 = AtomicI64::new(0);

#[repr(C)]
#[derive(Clone, Copy, PartialEq, Debug)]
pub struct Pod {
    pub a: u32,
    pub b: u8,
    pub c: u64,
}

#[cglue_trait]
#[int_result]
pub trait Counter {
    fn get(&self) -> u64;
    fn add(&mut self, v: u64) -> u64;
    fn name(&self) -> &str;
    fn fill(&self, out: &mut [u8]) -> usize;
    fn sum(&self, xs: &[u32]) -> u64;
    fn feed(&self, cb: OpaqueCallback<u64>) -> usize;
    fn eat(&self, it: CIterator<u32>) -> u64;
    fn opt(&self, x: Option<u32>) -> Option<u64>;
    #[no_int_result]
    fn res(&self, x: u32) -> Result<Pod, i32>;
    fn ires(&self, x: u32) -> Result<u64, ()>;
    fn pod(&self, p: Pod) -> Pod;
}

#[cglue_trait]
pub trait Extra {
    fn extra(&self) -> u64;
}

// two more mandatory traits: both sides expand the group separately and must agree on where each
// mandatory vtable sits
#[cglue_trait]
pub trait TagA {
    fn tag_a(&self) -> u64;
}
#[cglue_trait]
pub trait TagB {
    fn tag_b(&self, x: u32) -> u64;
}

cglue_trait_group!(CGroup, { Counter, TagB, TagA }, { Extra, Clone });

#[cglue_trait]
pub trait Maker {
    #[wrap_with_obj(Counter)]
    type C: Counter + 'static;
    #[wrap_with_group(CGroup)]
    type G: Counter + 'static;

    fn make(&self, v: u64) -> Self::C;
    fn make_group(&self, v: u64) -> Self::G;
    fn vec_make(&self, n: u32) -> CVec<u64>;
    fn vec_grow(&self, v: CVec<u64>, n: u32) -> CVec<u64>;
    fn vec_consume(&self, v: CVec<u64>) -> u64;
    /// clone a vector (whoever made it) inside this module
    fn vec_clone(&self, v: &CVec<u64>) -> CVec<u64>;
    fn arc_make(&self, v: u64) -> CArc<Blob>;
    fn arc_read(&self, a: CArc<Blob>) -> u64;
    /// CArc -> CArcSome -> CArc inside this module (whoever made the arc)
    fn arc_roundtrip(&self, a: CArc<Blob>) -> CArc<Blob>;
    fn boxed(&self, v: u64) -> CBox<'static, Blob>;
    fn slice_box(&self, n: u32) -> CSliceBox<'static, u64>;
    fn into_counter(self) -> Self::C;
    /// consumes the object and returns a plain value (nothing carries the context on)
    fn finish(self) -> u64;
}

/// A heap-owning value whose construction/destruction is counted by its module.
/// `repr(C)` with the plain field first: the other module may read `v` (offset 0) but must never
/// look at `heap` (a `Vec` has no stable layout across compilers / layout seeds).
#[repr(C)]
pub struct Blob {
    pub v: u64,
    pub heap: Vec<u64>,
}
impl Blob {
    pub fn new(v: u64) -> Self {
        LIVE_INSTANCES.fetch_add(1, SeqCst);
        Blob { v, heap: vec![v; 3] }
    }
}
impl Drop for Blob {
    fn drop(&mut self) {
        LIVE_INSTANCES.fetch_sub(1, SeqCst);
    }
}

pub struct CounterImp {
    v: AtomicU64,
    name: String,
    blob: Blob,
}
impl CounterImp {
    pub fn new(v: u64) -> Self {
        CounterImp { v: AtomicU64::new(v), name: format!("counter-{v}-naïve"), blob: Blob::new(v) }
    }
}
impl Clone for CounterImp {
    fn clone(&self) -> Self {
        CounterImp::new(self.v.load(SeqCst))
    }
}
fn mixv(a: u64, b: u64) -> u64 {
    (a ^ b.rotate_left(17)).wrapping_mul(0x9E3779B97F4A7C15)
}
impl Counter for CounterImp {
    fn get(&self) -> u64 {
        assert_eq!(self.blob.heap.len(), 3);
        self.v.load(SeqCst)
    }
    fn add(&mut self, v: u64) -> u64 {
        let n = mixv(self.v.load(SeqCst), v);
        self.v.store(n, SeqCst);
        n
    }
    fn name(&self) -> &str {
        &self.name
    }
    fn fill(&self, out: &mut [u8]) -> usize {
        let v = self.v.load(SeqCst);
        for (i, o) in out.iter_mut().enumerate() {
            *o = (v >> (i % 8)) as u8 ^ i as u8;
        }
        out.len() / 2
    }
    fn sum(&self, xs: &[u32]) -> u64 {
        xs.iter().fold(self.v.load(SeqCst), |a, x| mixv(a, *x as u64))
    }
    fn feed(&self, cb: OpaqueCallback<u64>) -> usize {
        let v = self.v.load(SeqCst);
        (0..(v % 7)).map(|i| mixv(v, i)).feed_into(cb)
    }
    fn eat(&self, it: CIterator<u32>) -> u64 {
        it.take(5).fold(self.v.load(SeqCst), |a, x| mixv(a, x as u64))
    }
    fn opt(&self, x: Option<u32>) -> Option<u64> {
        x.filter(|x| x % 3 != 0).map(|x| mixv(self.v.load(SeqCst), x as u64))
    }
    fn res(&self, x: u32) -> Result<Pod, i32> {
        if x % 2 == 0 {
            Ok(Pod { a: x, b: x as u8, c: mixv(self.v.load(SeqCst), x as u64) })
        } else {
            Err(-(x as i32 & 0xffff) - 1)
        }
    }
    fn ires(&self, x: u32) -> Result<u64, ()> {
        if x % 5 == 0 {
            Err(())
        } else {
            Ok(mixv(self.v.load(SeqCst), x as u64))
        }
    }
    fn pod(&self, p: Pod) -> Pod {
        Pod { a: p.a ^ 0x55, b: p.b.wrapping_add(1), c: mixv(p.c, self.v.load(SeqCst)) }
    }
}
impl Extra for CounterImp {
    fn extra(&self) -> u64 {
        self.v.load(SeqCst) ^ 0xE7
    }
}
impl TagA for CounterImp {
    fn tag_a(&self) -> u64 {
        self.v.load(SeqCst) ^ 0xA11A
    }
}
impl TagB for CounterImp {
    fn tag_b(&self, x: u32) -> u64 {
        mixv(self.v.load(SeqCst), x as u64 ^ 0xB22B)
    }
}
cglue_impl_group!(CounterImp, CGroup, { Extra, Clone });

pub struct MakerImp {
    pub seed: u64,
    blob: Blob,
}
impl MakerImp {
    pub fn new(seed: u64) -> Self {
        MakerImp { seed, blob: Blob::new(seed) }
    }
}
impl Maker for MakerImp {
    type C = CounterImp;
    type G = CounterImp;
    fn make(&self, v: u64) -> CounterImp {
        CounterImp::new(mixv(self.seed, v))
    }
    fn make_group(&self, v: u64) -> CounterImp {
        CounterImp::new(mixv(self.seed, v) ^ 1)
    }
    fn vec_make(&self, n: u32) -> CVec<u64> {
        (0..n as u64).map(|i| mixv(self.seed, i)).collect::<Vec<_>>().into()
    }
    fn vec_grow(&self, mut v: CVec<u64>, n: u32) -> CVec<u64> {
        if n % 4 == 1 {
            // insert (not push) into a vector that is typically exactly full
            let at = v.len() / 2;
            v.insert(at, mixv(self.seed, 777));
        }
        for i in 0..n as u64 {
            v.push(mixv(self.seed, 1000 + i));
        }
        if n % 3 == 0 && !v.is_empty() {
            v.remove(0);
        }
        v
    }
    fn vec_consume(&self, v: CVec<u64>) -> u64 {
        v.iter().fold(self.seed, |a, x| mixv(a, *x))
    }
    fn vec_clone(&self, v: &CVec<u64>) -> CVec<u64> {
        v.clone()
    }
    fn arc_make(&self, v: u64) -> CArc<Blob> {
        CArc::from(Blob::new(mixv(self.seed, v)))
    }
    fn arc_read(&self, a: CArc<Blob>) -> u64 {
        a.as_ref().map(|b| b.v + b.heap.len() as u64).unwrap_or(0)
    }
    fn arc_roundtrip(&self, a: CArc<Blob>) -> CArc<Blob> {
        match a.transpose() {
            Some(s) => s.clone().transpose(),
            None => CArc::default(),
        }
    }
    fn boxed(&self, v: u64) -> CBox<'static, Blob> {
        CBox::from(Blob::new(mixv(self.seed, v)))
    }
    fn slice_box(&self, n: u32) -> CSliceBox<'static, u64> {
        CSliceBox::from((0..n as u64).map(|i| mixv(self.seed, i)).collect::<Vec<_>>().into_boxed_slice())
    }
    fn into_counter(self) -> CounterImp {
        assert_eq!(self.blob.v, self.seed);
        CounterImp::new(self.seed ^ 0xC0)
    }
    fn finish(self) -> u64 {
        assert_eq!(self.blob.v, self.seed);
        mixv(self.seed, 0xF1)
    }
}

/// Digest of the layouts of everything that crosses the boundary (both sides must agree).
pub fn layout_digest() -> u64 {
    use std::mem::{align_of, size_of};
    let mut h = 0xcbf29ce484222325u64;
    let mut add = |x: usize| {
        h ^= x as u64;
        h = h.wrapping_mul(0x100000001b3);
    };
    macro_rules! ty { ($($t:ty),*) => { $( add(size_of::<$t>()); add(align_of::<$t>()); )* }; }
    ty!(MakerArcBox<'static>, CounterArcBox<'static>, CGroupArcBox<'static>, CVec<u64>, CArc<Blob>, CBox<'static, Blob>, CSliceBox<'static, u64>, CSliceRef<'static, u8>, OpaqueCallback<'static, u64>, CIterator<'static, u32>, Pod, COption<u64>, CResult<Pod, i32>, CArc<cglue::trait_group::c_void>);
    h
}
