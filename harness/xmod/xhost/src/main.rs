//! The host side: loads the separately built plugin and drives generated histories across the
//! module boundary, comparing with host-local reference implementors (same API source).
use cglue::prelude::v1::*;
use proptest::prelude::*;
use serde::{Deserialize, Serialize};
use std::sync::atomic::Ordering::SeqCst;
use std::sync::Arc;
use verifkit::{ensure, pick, Args, CaseResult, Ctx, Fail, Info};
use xapi::*;

#[global_allocator]
static A: xapi::tagalloc::Tagging = xapi::tagalloc::Tagging { tag: 0x484f_5354_0000_0002 };

type Void = cglue::trait_group::c_void;

struct Plugin {
    _lib: libloading::Library,
    create: unsafe extern "C" fn(&CArc<Void>, u64) -> MakerArcBox<'static>,
    live_instances: unsafe extern "C" fn() -> i64,
    live_blocks: unsafe extern "C" fn() -> i64,
    foreign_frees: unsafe extern "C" fn() -> u64,
    layout_digest: unsafe extern "C" fn() -> u64,
}

impl Plugin {
    fn load(path: &str) -> Plugin {
        unsafe {
            let lib = libloading::Library::new(path).expect("cannot load plugin");
            macro_rules! sym {
                ($n:expr) => {
                    *lib.get($n).expect("missing symbol")
                };
            }
            let create = sym!(b"xm_create");
            let live_instances = sym!(b"xm_live_instances");
            let live_blocks = sym!(b"xm_live_blocks");
            let foreign_frees = sym!(b"xm_foreign_frees");
            let layout_digest = sym!(b"xm_layout_digest");
            Plugin { _lib: lib, create, live_instances, live_blocks, foreign_frees, layout_digest }
        }
    }
}

#[derive(Debug, Clone, Serialize, Deserialize, PartialEq)]
pub enum Op {
    Make(u64),
    MakeGroup(u64),
    CounterCall(u16, u8, u32),
    GroupCall(u16, u8, u32),
    GroupClone(u16),
    DropCounter(u16),
    DropGroup(u16),
    VecMake(u8),
    VecHostNew(u8),
    VecPushHost(u16, u8),
    VecGrowPlugin(u16, u8),
    VecConsume(u16),
    VecDropHost(u16),
    /// clone vector i in the host / in the plugin (the copy joins the pool and is grown later)
    VecCloneHost(u16),
    VecClonePlugin(u16),
    /// insert into vector i in the host (growth of an exactly full foreign vector included)
    VecInsertHost(u16, u8),
    ArcMake(u64),
    ArcClone(u16),
    ArcRead(u16),
    ArcDrop(u16),
    /// CArc -> CArcSome -> (clone) -> CArc in the host / in the plugin; the result replaces the handle
    ArcRoundtripHost(u16),
    ArcRoundtripPlugin(u16),
    Boxed(u64),
    SliceBox(u8),
    IntoCounter,
    NewMaker(u64),
}

#[derive(Debug, Clone, Serialize, Deserialize)]
pub struct Case {
    pub seed: u64,
    pub ops: Vec<Op>,
    pub drop_order: Vec<u16>,
}

struct HostCtx(#[allow(dead_code)] u64);

fn counter_call<W: Counter, R: Counter>(w: &mut W, r: &mut R, which: u8, x: u32, when: &str) -> Result<(), Fail> {
    match which % 11 {
        0 => ensure!(w.get() == r.get(), "C05:result", "{when}: get {} vs {}", w.get(), r.get()),
        1 => {
            let (a, b) = (w.add(x as u64), r.add(x as u64));
            ensure!(a == b, "C05:result", "{when}: add {a} vs {b}");
        }
        2 => ensure!(w.name() == r.name(), "C05:result", "{when}: name {:?} vs {:?}", w.name(), r.name()),
        3 => {
            let n = (x % 40) as usize;
            let (mut a, mut b) = (vec![0u8; n], vec![0u8; n]);
            let (ra, rb) = (w.fill(&mut a), r.fill(&mut b));
            ensure!(ra == rb && a == b, "C05:result", "{when}: fill differs");
        }
        4 => {
            let xs: Vec<u32> = (0..(x % 9)).map(|i| i.wrapping_mul(x)).collect();
            ensure!(w.sum(&xs) == r.sum(&xs), "C05:result", "{when}: sum differs");
        }
        5 => {
            let (mut a, mut b): (Vec<u64>, Vec<u64>) = (vec![], vec![]);
            let (na, nb) = (w.feed((&mut a).into()), r.feed((&mut b).into()));
            ensure!(na == nb && a == b, "C05:result", "{when}: callback feed differs ({na} vs {nb} items)");
        }
        6 => {
            let src: Vec<u32> = (0..(x % 8)).map(|i| i + x).collect();
            let (mut ia, mut ib) = (src.clone().into_iter(), src.into_iter());
            ensure!(w.eat((&mut ia).into()) == r.eat((&mut ib).into()), "C05:result", "{when}: iterator eat differs");
            ensure!(ia.collect::<Vec<_>>() == ib.collect::<Vec<_>>(), "C05:result", "{when}: iterator remainder differs");
        }
        7 => {
            let o = if x % 4 == 0 { None } else { Some(x) };
            ensure!(w.opt(o) == r.opt(o), "C05:result", "{when}: opt differs");
        }
        8 => ensure!(w.res(x) == r.res(x), "C05:result", "{when}: res differs"),
        9 => ensure!(w.ires(x) == r.ires(x), "C05:result", "{when}: int result differs: {:?} vs {:?}", w.ires(x), r.ires(x)),
        _ => {
            let p = Pod { a: x, b: x as u8, c: x as u64 * 3 };
            ensure!(w.pod(p) == r.pod(p), "C05:result", "{when}: pod differs");
        }
    }
    Ok(())
}

struct Flags {
    cross: bool,
    ops: usize,
}

fn body(pl: &Plugin, case: &Case, fl: &mut Flags) -> Result<(), Fail> {
    let host_arc = Arc::new(HostCtx(case.seed));
    let cctx: CArc<Void> = CArc::<HostCtx>::from(host_arc.clone()).into_opaque();
    let mut pm = Some(unsafe { (pl.create)(&cctx, case.seed) });
    let mut rm = Some(MakerImp::new(case.seed));
    let mut counters: Vec<(CounterArcBox, CounterImp)> = Vec::new();
    let mut groups: Vec<(CGroupArcBox, CounterImp)> = Vec::new();
    let mut vecs: Vec<(CVec<u64>, Vec<u64>)> = Vec::new();
    let mut arcs: Vec<(CArc<Blob>, u64)> = Vec::new();
    for (step, op) in case.ops.iter().enumerate() {
        let when = format!("step {step} {op:?}");
        fl.ops += 1;
        match op {
            Op::NewMaker(s) => {
                pm = Some(unsafe { (pl.create)(&cctx, *s) });
                rm = Some(MakerImp::new(*s));
            }
            Op::Make(v) => {
                if let (Some(p), Some(r)) = (&pm, &rm) {
                    counters.push((p.make(*v), r.make(*v)));
                }
            }
            Op::MakeGroup(v) => {
                if let (Some(p), Some(r)) = (&pm, &rm) {
                    groups.push((p.make_group(*v), r.make_group(*v)));
                }
            }
            Op::CounterCall(i, which, x) => {
                if !counters.is_empty() {
                    let i = pick(*i, counters.len());
                    let (w, r) = &mut counters[i];
                    counter_call(w, r, *which, *x, &when)?;
                    fl.cross = true;
                }
            }
            Op::GroupCall(i, which, x) => {
                if !groups.is_empty() {
                    let i = pick(*i, groups.len());
                    let (w, r) = &mut groups[i];
                    if *which % 4 == 2 {
                        // the other mandatory traits of the group
                        ensure!(w.tag_a() == r.tag_a(), "C05:result", "{when}: TagA::tag_a (a mandatory trait of the group) differs across modules");
                        ensure!(w.tag_b(*x) == r.tag_b(*x), "C05:result", "{when}: TagB::tag_b (a mandatory trait of the group) differs across modules");
                    }
                    if *which % 4 == 3 {
                        let e = as_ref!(w impl Extra).ok_or_else(|| Fail::new("C05:cast", format!("{when}: cast to an enabled trait refused across modules")))?;
                        ensure!(e.extra() == r.extra(), "C05:result", "{when}: Extra::extra differs");
                    } else {
                        counter_call(w, r, *which, *x, &when)?;
                    }
                    fl.cross = true;
                }
            }
            Op::GroupClone(i) => {
                if !groups.is_empty() {
                    let i = pick(*i, groups.len());
                    let (w, r) = groups.remove(i);
                    let c = cast!(w impl Clone).ok_or_else(|| Fail::new("C05:cast", format!("{when}: cast to Clone refused across modules")))?;
                    let c2 = c.clone(); // runs the plugin's clone through the vtable, clones the host's context
                    let r2 = r.clone();
                    groups.push((c.upcast(), r));
                    groups.push((c2.upcast(), r2));
                    fl.cross = true;
                }
            }
            Op::DropCounter(i) => {
                if !counters.is_empty() {
                    let i = pick(*i, counters.len());
                    drop(counters.remove(i)); // destroyed in the host: must run the plugin's drop
                    fl.cross = true;
                }
            }
            Op::DropGroup(i) => {
                if !groups.is_empty() {
                    let i = pick(*i, groups.len());
                    drop(groups.remove(i));
                    fl.cross = true;
                }
            }
            Op::VecMake(n) => {
                if let (Some(p), Some(r)) = (&pm, &rm) {
                    let v = p.vec_make(*n as u32 % 20);
                    let m = r.vec_make(*n as u32 % 20).to_vec();
                    ensure!(&v[..] == &m[..], "C05:result", "{when}: vector made in the plugin differs");
                    vecs.push((v, m));
                }
            }
            Op::VecHostNew(n) => {
                let m: Vec<u64> = (0..(*n as u64 % 10)).collect();
                vecs.push((CVec::from(m.clone()), m));
            }
            Op::VecPushHost(i, k) => {
                if !vecs.is_empty() {
                    let i = pick(*i, vecs.len());
                    for j in 0..(*k as u64 % 24) {
                        vecs[i].0.push(j * 7); // growth must go through the stored reserve function
                        vecs[i].1.push(j * 7);
                    }
                    ensure!(&vecs[i].0[..] == &vecs[i].1[..], "C05:result", "{when}: vector differs after growing in the host");
                    fl.cross = true;
                }
            }
            Op::VecGrowPlugin(i, n) => {
                if let (false, Some(p), Some(r)) = (vecs.is_empty(), &pm, &rm) {
                    let i = pick(*i, vecs.len());
                    let (v, m) = vecs.remove(i);
                    let v = p.vec_grow(v, *n as u32 % 16);
                    let m = r.vec_grow(CVec::from(m), *n as u32 % 16).to_vec();
                    ensure!(&v[..] == &m[..], "C05:result", "{when}: vector differs after growing in the plugin");
                    vecs.push((v, m));
                    fl.cross = true;
                }
            }
            Op::VecConsume(i) => {
                if let (false, Some(p), Some(r)) = (vecs.is_empty(), &pm, &rm) {
                    let i = pick(*i, vecs.len());
                    let (v, m) = vecs.remove(i);
                    ensure!(p.vec_consume(v) == r.vec_consume(CVec::from(m)), "C05:result", "{when}: vec_consume differs");
                    fl.cross = true;
                }
            }
            Op::VecDropHost(i) => {
                if !vecs.is_empty() {
                    let i = pick(*i, vecs.len());
                    drop(vecs.remove(i));
                    fl.cross = true;
                }
            }
            Op::VecInsertHost(i, k) => {
                if !vecs.is_empty() {
                    let i = pick(*i, vecs.len());
                    let at = if vecs[i].1.is_empty() { 0 } else { *k as usize % (vecs[i].1.len() + 1) };
                    vecs[i].0.insert(at, 4242 + *k as u64);
                    vecs[i].1.insert(at, 4242 + *k as u64);
                    ensure!(&vecs[i].0[..] == &vecs[i].1[..], "C05:result", "{when}: vector differs after an insert in the host");
                    fl.cross = true;
                }
            }
            Op::VecCloneHost(i) => {
                if !vecs.is_empty() {
                    let i = pick(*i, vecs.len());
                    let c = vecs[i].0.clone();
                    ensure!(&c[..] == &vecs[i].1[..], "C05:result", "{when}: clone made in the host differs");
                    let m = vecs[i].1.clone();
                    vecs.push((c, m));
                    fl.cross = true;
                }
            }
            Op::VecClonePlugin(i) => {
                if let (false, Some(p)) = (vecs.is_empty(), &pm) {
                    let i = pick(*i, vecs.len());
                    let c = p.vec_clone(&vecs[i].0);
                    ensure!(&c[..] == &vecs[i].1[..], "C05:result", "{when}: clone made in the plugin differs");
                    let m = vecs[i].1.clone();
                    vecs.push((c, m));
                    fl.cross = true;
                }
            }
            Op::ArcMake(v) => {
                if let (Some(p), Some(r)) = (&pm, &rm) {
                    let a = p.arc_make(*v);
                    let want = r.arc_make(*v).as_ref().map(|b| b.v).unwrap_or(0);
                    ensure!(a.as_ref().map(|b| b.v) == Some(want), "C05:result", "{when}: arc payload differs");
                    arcs.push((a, want));
                }
            }
            Op::ArcClone(i) => {
                if !arcs.is_empty() {
                    let i = pick(*i, arcs.len());
                    let c = arcs[i].0.clone(); // plugin's clone function
                    arcs.push((c, arcs[i].1));
                    fl.cross = true;
                }
            }
            Op::ArcRoundtripHost(i) => {
                if !arcs.is_empty() {
                    let i = pick(*i, arcs.len());
                    let (a, v) = arcs.remove(i);
                    let b = match a.transpose() {
                        Some(s) => s.clone().transpose(),
                        None => CArc::default(),
                    };
                    arcs.push((b, v));
                    fl.cross = true;
                }
            }
            Op::ArcRoundtripPlugin(i) => {
                if let (false, Some(p)) = (arcs.is_empty(), &pm) {
                    let i = pick(*i, arcs.len());
                    let (a, v) = arcs.remove(i);
                    arcs.push((p.arc_roundtrip(a), v));
                    fl.cross = true;
                }
            }
            Op::ArcRead(i) => {
                if let (false, Some(p)) = (arcs.is_empty(), &pm) {
                    let i = pick(*i, arcs.len());
                    let got = p.arc_read(arcs[i].0.clone()); // the clone is dropped inside the plugin
                    ensure!(got == arcs[i].1 + 3, "C05:result", "{when}: arc_read {got} != {}", arcs[i].1 + 3);
                    fl.cross = true;
                }
            }
            Op::ArcDrop(i) => {
                if !arcs.is_empty() {
                    let i = pick(*i, arcs.len());
                    drop(arcs.remove(i));
                    fl.cross = true;
                }
            }
            Op::Boxed(v) => {
                if let (Some(p), Some(r)) = (&pm, &rm) {
                    let b = p.boxed(*v);
                    let want = r.boxed(*v);
                    ensure!(b.v == want.v, "C05:result", "{when}: boxed payload differs");
                    drop(b); // host drops a box allocated by the plugin
                    fl.cross = true;
                }
            }
            Op::SliceBox(n) => {
                if let (Some(p), Some(r)) = (&pm, &rm) {
                    let b = p.slice_box(*n as u32 % 12);
                    let want = r.slice_box(*n as u32 % 12);
                    ensure!(&b[..] == &want[..], "C05:result", "{when}: boxed slice differs");
                    drop(b);
                    fl.cross = true;
                }
            }
            Op::IntoCounter => {
                if let (Some(p), Some(r)) = (pm.take(), rm.take()) {
                    counters.push((p.into_counter(), r.into_counter()));
                    fl.cross = true;
                }
            }
        }
    }
    // drop everything in a generated order
    enum Any<'a> {
        C((CounterArcBox<'a>, CounterImp)),
        G((CGroupArcBox<'a>, CounterImp)),
        V((CVec<u64>, Vec<u64>)),
        A((CArc<Blob>, u64)),
        M(Option<MakerArcBox<'a>>, Option<MakerImp>),
    }
    let mut all: Vec<Any> = Vec::new();
    all.extend(counters.into_iter().map(Any::C));
    all.extend(groups.into_iter().map(Any::G));
    all.extend(vecs.into_iter().map(Any::V));
    all.extend(arcs.into_iter().map(Any::A));
    all.push(Any::M(pm, rm));
    let mut k = 0;
    while !all.is_empty() {
        let i = pick(case.drop_order.get(k).copied().unwrap_or(0), all.len());
        k += 1;
        drop(all.remove(i));
    }
    drop(cctx);
    ensure!(Arc::strong_count(&host_arc) == 1, "C05:ctx-count", "the host's context count is {} after everything from the plugin is gone", Arc::strong_count(&host_arc));
    Ok(())
}

fn check(pl: &Plugin, case: &Case) -> CaseResult {
    let mut fl = Flags { cross: false, ops: 0 };
    let run = |fl: &mut Flags| -> Result<(i64, i64, i64), Fail> {
        let (i0, b0, h0) = unsafe { ((pl.live_instances)(), (pl.live_blocks)(), xapi::tagalloc::LIVE_BLOCKS.load(SeqCst)) };
        let hi0 = LIVE_INSTANCES.load(SeqCst);
        body(pl, case, fl)?;
        let (i1, b1) = unsafe { ((pl.live_instances)(), (pl.live_blocks)()) };
        ensure!(i1 == i0, "C05:plugin-instances", "plugin-side live instance counter is {} after the history, {} before", i1, i0);
        ensure!(LIVE_INSTANCES.load(SeqCst) == hi0, "C05:host-instances", "host-side live instance counter changed");
        Ok((b1 - b0, xapi::tagalloc::LIVE_BLOCKS.load(SeqCst) - h0, 0))
    };
    let (mut db, mut dh, _) = run(&mut fl)?;
    if db != 0 || dh != 0 {
        // one-time lazy allocations show up once only: confirm on a second execution
        let r = run(&mut fl)?;
        db = r.0;
        dh = r.1;
    }
    ensure!(db == 0, "C05:plugin-leak", "{db} blocks allocated by the plugin's allocator are still live after the history");
    ensure!(dh == 0, "C05:host-leak", "{dh} blocks allocated by the host's allocator are still live after the history");
    let (pf, hf) = (unsafe { (pl.foreign_frees)() }, xapi::tagalloc::FOREIGN_FREES.load(SeqCst));
    ensure!(pf == 0, "C05:foreign-free", "the plugin's allocator was asked {pf} times to free/realloc a block it did not allocate (tag {:#x})", 0);
    ensure!(hf == 0, "C05:foreign-free", "the host's allocator was asked {hf} times to free/realloc a block it did not allocate (block tagged {:#x})", xapi::tagalloc::FOREIGN_TAG_SEEN.load(SeqCst));
    Ok(Info::new(fl.cross).class_if(fl.cross, "value created in one module used/destroyed in the other"))
}

fn op_strategy() -> impl Strategy<Value = Op> {
    prop_oneof![
        4 => any::<u64>().prop_map(Op::Make),
        3 => any::<u64>().prop_map(Op::MakeGroup),
        8 => (any::<u16>(), 0u8..11, any::<u32>()).prop_map(|(i, w, x)| Op::CounterCall(i, w, x)),
        5 => (any::<u16>(), 0u8..12, any::<u32>()).prop_map(|(i, w, x)| Op::GroupCall(i, w, x)),
        2 => any::<u16>().prop_map(Op::GroupClone),
        3 => any::<u16>().prop_map(Op::DropCounter),
        2 => any::<u16>().prop_map(Op::DropGroup),
        2 => any::<u8>().prop_map(Op::VecMake),
        2 => any::<u8>().prop_map(Op::VecHostNew),
        3 => (any::<u16>(), any::<u8>()).prop_map(|(i, k)| Op::VecPushHost(i, k)),
        3 => (any::<u16>(), any::<u8>()).prop_map(|(i, k)| Op::VecGrowPlugin(i, k)),
        1 => any::<u16>().prop_map(Op::VecConsume),
        2 => any::<u16>().prop_map(Op::VecDropHost),
        2 => any::<u16>().prop_map(Op::VecCloneHost),
        2 => any::<u16>().prop_map(Op::VecClonePlugin),
        3 => (any::<u16>(), any::<u8>()).prop_map(|(i, k)| Op::VecInsertHost(i, k)),
        2 => any::<u64>().prop_map(Op::ArcMake),
        2 => any::<u16>().prop_map(Op::ArcClone),
        2 => any::<u16>().prop_map(Op::ArcRead),
        2 => any::<u16>().prop_map(Op::ArcDrop),
        2 => any::<u16>().prop_map(Op::ArcRoundtripHost),
        1 => any::<u16>().prop_map(Op::ArcRoundtripPlugin),
        1 => any::<u64>().prop_map(Op::Boxed),
        1 => any::<u8>().prop_map(Op::SliceBox),
        1 => Just(Op::IntoCounter),
        1 => any::<u64>().prop_map(Op::NewMaker),
    ]
}

// ---- the context really is the handle that keeps the plugin loaded -----------------------------

/// A history whose last step is a consuming call on the object that holds the LAST reference to
/// the loaded library: the library is unloaded by that call, and the call must still return.
#[derive(Debug, Clone, Serialize, Deserialize)]
pub struct UnloadCase {
    pub seed: u64,
    /// further objects made from the same context, dropped (in this order, by index) before the last call
    pub others: Vec<u8>,
    /// 0: finish() on the maker; 1: into_counter() then drop the counter; 2: make a counter, drop the maker, drop the counter
    pub last: u8,
}

fn still_mapped(path: &str) -> bool {
    use libloading::os::unix::{Library, RTLD_LAZY};
    const RTLD_NOLOAD: i32 = 4;
    unsafe { Library::open(Some(path), RTLD_LAZY | RTLD_NOLOAD).is_ok() }
}

fn unload_check(path: &str, c: &UnloadCase) -> CaseResult {
    let lib = unsafe { libloading::Library::new(path) }.map_err(|e| Fail::new("harness", format!("cannot load the plugin again: {e}")))?;
    let create: unsafe extern "C" fn(&CArc<Void>, u64) -> MakerArcBox<'static> = unsafe { *lib.get(b"xm_create").map_err(|e| Fail::new("harness", format!("{e}")))? };
    // as in the repository's plugin example: the context owns the library handle
    let ctx: CArc<Void> = CArc::from(lib).into_opaque();
    let mut objs: Vec<Option<MakerArcBox<'static>>> = (0..=c.others.len() as u64).map(|i| Some(unsafe { create(&ctx, c.seed.wrapping_add(i)) })).collect();
    drop(ctx);
    for k in &c.others {
        let n = objs.len() - 1; // never the first one
        let i = 1 + pick(*k as u16, n.max(1)) % n.max(1);
        if let Some(o) = objs.get_mut(i).and_then(|o| o.take()) {
            drop(o);
        }
    }
    for o in objs.iter_mut().skip(1) {
        drop(o.take());
    }
    ensure!(still_mapped(path), "harness", "the plugin is gone although an object with its context is alive");
    let last = objs[0].take().unwrap();
    let reference = MakerImp::new(c.seed);
    match c.last % 3 {
        0 => {
            let r = last.finish();
            ensure!(r == reference.finish(), "C05:unload-result", "finish() on the last holder returned {r:#x}, a host-local implementor {:#x}", MakerImp::new(c.seed).finish());
        }
        1 => {
            let cnt = last.into_counter();
            let r = cnt.get();
            ensure!(r == reference.into_counter().get(), "C05:unload-result", "counter obtained from the last holder answers {r:#x}");
            drop(cnt);
        }
        _ => {
            let cnt = last.make(5);
            drop(last);
            let r = cnt.get();
            ensure!(r == reference.make(5).get(), "C05:unload-result", "counter made by the last holder answers {r:#x}");
            drop(cnt);
        }
    }
    let gone = !still_mapped(path);
    Ok(Info::new(gone).class(if gone { "unload:library-unmapped-by-the-last-release" } else { "unload:library-still-mapped" }).class(format!("unload:last{}", c.last % 3)))
}

fn main() {
    verifkit::quiet_panics();
    let args = Args::parse();
    let plugin_path = args.extra.iter().position(|x| x == "--plugin").and_then(|i| args.extra.get(i + 1)).cloned().expect("--plugin <path>");
    let label = args.extra.iter().position(|x| x == "--label").and_then(|i| args.extra.get(i + 1)).cloned().unwrap_or_default();
    let cases: u32 = args.extra.iter().position(|x| x == "--cases").and_then(|i| args.extra.get(i + 1)).and_then(|s| s.parse().ok()).unwrap_or(500);
    let ctx = Ctx::new(args);
    let pl = Plugin::load(&plugin_path);
    let sub = format!("pair:{label}");
    let (hd, pd) = (layout_digest(), unsafe { (pl.layout_digest)() });
    if hd != pd {
        ctx.violation(&sub, &serde_json::json!({"layout_digest_host": hd, "layout_digest_plugin": pd}), Fail::new("C05:layout-digest", format!("host and plugin disagree on the size/alignment of the types that cross the boundary ({hd:#x} vs {pd:#x})")));
    } else {
        let strat = (any::<u64>(), prop::collection::vec(op_strategy(), 1..40), prop::collection::vec(any::<u16>(), 0..12)).prop_map(|(seed, ops, drop_order)| Case { seed, ops, drop_order });
        ctx.run(&sub, cases, strat, |c| check(&pl, c));
    }
    // from here on no symbol of the first handle may be used: the plugin gets unloaded and reloaded
    if !ctx.failed() {
        drop(pl);
        let ustrat = (any::<u64>(), prop::collection::vec(any::<u8>(), 0..4), 0u8..3).prop_map(|(seed, others, last)| UnloadCase { seed, others, last });
        let usub = format!("unload:{label}");
        let p2 = plugin_path.clone();
        ctx.run(&usub, (cases / 10).max(20), ustrat, |c| unload_check(&p2, c));
    }
    let code = ctx.finish("pairs (host build, plugin build) over {stable, nightly, 1.98.1, nightly-2026-08-21} x {debug, release} x randomized repr(Rust) layout seeds (nightly) x two distinct tagging global allocators; the plugin is a cdylib loaded with dlopen; histories: {make object / group through the plugin's vtable, call every Counter method (slices, strings, callbacks, iterators, options, results, int results, PODs), cast, clone through the group's Clone, drop in the host, CVec made in the plugin / in the host, grown in the host / in the plugin, consumed in the other module, CArc made in the plugin cloned/dropped in the host and vice versa (the context), CBox / CSliceBox from the plugin dropped in the host, consuming call; finally UNLOAD histories: the context is a CArc owning the dlopen handle itself, several objects are made from it, the host drops its own reference and all but one object, and the last holder is consumed (plain return / wrapped return dropped afterwards / child outliving its maker): the library is unmapped by that very release and the call must return the right value}. Oracle: every result equals a host-local reference implementor; both tagging allocators see zero frees/reallocs of blocks they did not allocate; plugin live-instance and live-block counters return to their start values; host context count restored; layout digests agree. Non-trivial = a value created in one module is used, cloned, grown or destroyed in the other", &["four rustc versions of one LLVM family on one target"], false);
    std::process::exit(code);
}
