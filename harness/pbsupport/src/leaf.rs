//! Fixed trait family used as the target of wrapped associated types in generated traits.
use crate::{Core, Shared};
use cglue::*;
use std::sync::Arc;

#[cglue_trait]
pub trait Leaf {
    fn lf_get(&self) -> u64;
    fn lf_bump(&mut self, by: u64) -> u64;
    fn lf_name(&self) -> &str;
}

/// Read-only leaf: the target of by-reference wrappers (a `&T` container admits `&self` methods only).
#[cglue_trait]
pub trait LeafRo {
    fn ro_get(&self) -> u64;
    fn ro_name(&self) -> &str;
}

#[cglue_trait]
pub trait LeafExtra {
    fn lx_twice(&self, v: u32) -> u64;
}

#[cglue_trait]
pub trait LeafMore {
    fn lm_poke(&mut self) -> u64;
}

cglue_trait_group!(LeafGroup, Leaf, { LeafExtra, LeafMore });
cglue_trait_group!(LeafRoGroup, LeafRo, { LeafExtra });

pub struct LeafImp {
    pub core: Core,
}

impl LeafImp {
    pub fn new(seed: u64) -> Self {
        LeafImp { core: Core::new(Shared::new(seed), seed | 1) }
    }
    pub fn shared(&self) -> Arc<Shared> {
        self.core.sh.clone()
    }
}

impl Leaf for LeafImp {
    fn lf_get(&self) -> u64 {
        self.core.enter(9000, 0)
    }
    fn lf_bump(&mut self, by: u64) -> u64 {
        self.core.enter(9001, by)
    }
    fn lf_name(&self) -> &str {
        let h = self.core.enter(9002, 0);
        self.core.lend_str(h)
    }
}

impl LeafRo for LeafImp {
    fn ro_get(&self) -> u64 {
        self.core.enter(9010, 0)
    }
    fn ro_name(&self) -> &str {
        let h = self.core.enter(9011, 0);
        self.core.lend_str(h)
    }
}

impl LeafExtra for LeafImp {
    fn lx_twice(&self, v: u32) -> u64 {
        self.core.enter(9003, v as u64).wrapping_mul(2)
    }
}

cglue_impl_group!(LeafImp, LeafGroup, { LeafExtra });
cglue_impl_group!(LeafImp, LeafRoGroup, { LeafExtra });

/// Exercise an owned / mutably borrowed leaf and digest what it answers.
pub fn probe_leaf<L: Leaf>(l: &mut L, seed: u64) -> u64 {
    let mut h = verifkit::Fnv::new();
    h.u64(l.lf_get());
    h.u64(l.lf_bump(seed));
    h.str(l.lf_name());
    h.u64(l.lf_get());
    h.get()
}

/// Exercise a shared leaf (only `&self` methods).
pub fn probe_leaf_ref<L: LeafRo>(l: &L) -> u64 {
    let mut h = verifkit::Fnv::new();
    h.u64(l.ro_get());
    h.str(l.ro_name());
    h.u64(l.ro_get());
    h.get()
}
