//! Runtime support for generated program batches: value generation/digesting, the stateful
//! implementor core, and the fixed "leaf" trait family used for wrapped associated types.
pub use cglue;
pub use verifkit;
use std::sync::atomic::{AtomicU64, Ordering::SeqCst};
use std::sync::{Arc, Mutex};
use verifkit::tok::HeapTok;
use verifkit::Fnv;

pub mod leaf;
pub use leaf::*;

// ---------------------------------------------------------------------------------------------
// deterministic value source

#[derive(Clone)]
pub struct Gen(pub u64);

impl Gen {
    pub fn new(seed: u64) -> Self {
        Gen(seed ^ 0x9E3779B97F4A7C15)
    }
    pub fn next(&mut self) -> u64 {
        // splitmix64
        self.0 = self.0.wrapping_add(0x9E3779B97F4A7C15);
        let mut z = self.0;
        z = (z ^ (z >> 30)).wrapping_mul(0xBF58476D1CE4E5B9);
        z = (z ^ (z >> 27)).wrapping_mul(0x94D049BB133111EB);
        z ^ (z >> 31)
    }
    pub fn below(&mut self, n: u64) -> u64 {
        if n == 0 {
            0
        } else {
            self.next() % n
        }
    }
    pub fn bit(&mut self) -> bool {
        self.next() & 1 == 1
    }
    /// integer of `bits` bits with edge values (0, 1, MAX, MIN, -1) forced for a fraction of draws
    pub fn int(&mut self, bits: u32) -> u64 {
        let mask = if bits >= 64 { u64::MAX } else { (1u64 << bits) - 1 };
        match self.below(8) {
            0 => 0,
            1 => mask,                // all ones: MAX unsigned / -1 signed
            2 => mask >> 1,           // MAX signed
            3 => (mask >> 1) + 1,     // MIN signed
            4 => 1,
            _ => self.next() & mask,
        }
    }
    pub fn len(&mut self) -> usize {
        match self.below(6) {
            0 => 0,
            1 => 1,
            _ => self.below(12) as usize,
        }
    }
}

/// By-value types that can cross the boundary.
pub trait Val: Sized + Clone + PartialEq + std::fmt::Debug {
    fn gen(g: &mut Gen) -> Self;
    fn dig(&self, h: &mut Fnv);
    /// a value that differs from `self` (used for writes through &mut)
    fn is_default_like(&self) -> bool {
        false
    }
}

macro_rules! int_val {
    ($($t:ty : $bits:expr),*) => {$(
        impl Val for $t {
            fn gen(g: &mut Gen) -> Self { g.int($bits) as $t }
            fn dig(&self, h: &mut Fnv) { h.u64(*self as u64); }
            fn is_default_like(&self) -> bool { *self == 0 }
        }
    )*};
}
int_val!(u8: 8, u16: 16, u32: 32, u64: 64, usize: 64, i8: 8, i16: 16, i32: 32, i64: 64, isize: 64);

impl Val for bool {
    fn gen(g: &mut Gen) -> Self {
        g.bit()
    }
    fn dig(&self, h: &mut Fnv) {
        h.u64(*self as u64);
    }
    fn is_default_like(&self) -> bool {
        !*self
    }
}

/// f64/f32 compared and digested bitwise (NaN payloads included)
#[derive(Clone, Copy, Debug)]
#[repr(transparent)]
pub struct F64(pub f64);
impl PartialEq for F64 {
    fn eq(&self, o: &Self) -> bool {
        self.0.to_bits() == o.0.to_bits()
    }
}
impl Val for f64 {
    fn gen(g: &mut Gen) -> Self {
        match g.below(8) {
            0 => 0.0,
            1 => -0.0,
            2 => f64::NAN,
            3 => f64::from_bits(0x7ff8_0000_dead_beef), // NaN with payload
            4 => f64::INFINITY,
            5 => f64::MIN_POSITIVE / 2.0,
            _ => f64::from_bits(g.next()),
        }
    }
    fn dig(&self, h: &mut Fnv) {
        h.u64(self.to_bits());
    }
}
impl Val for f32 {
    fn gen(g: &mut Gen) -> Self {
        match g.below(6) {
            0 => 0.0,
            1 => f32::NAN,
            2 => f32::from_bits(0x7fc0_beef),
            3 => f32::NEG_INFINITY,
            _ => f32::from_bits(g.next() as u32),
        }
    }
    fn dig(&self, h: &mut Fnv) {
        h.u64(self.to_bits() as u64);
    }
}
/// Equality used by the oracles: bitwise for floating point (NaN payloads must survive).
pub trait Same {
    fn same_as(&self, o: &Self) -> bool;
}
macro_rules! same_eq { ($($t:ty),*) => {$( impl Same for $t { fn same_as(&self, o: &Self) -> bool { self == o } } )*}; }
same_eq!(u8, u16, u32, u64, usize, i8, i16, i32, i64, isize, bool, char, Pod1, Pod2, Unit0, (), String, UErr, LErr, *const u8, *mut u32);
impl Same for f64 { fn same_as(&self, o: &Self) -> bool { self.to_bits() == o.to_bits() } }
impl Same for f32 { fn same_as(&self, o: &Self) -> bool { self.to_bits() == o.to_bits() } }
impl<T: Same> Same for Option<T> {
    fn same_as(&self, o: &Self) -> bool {
        match (self, o) { (None, None) => true, (Some(a), Some(b)) => a.same_as(b), _ => false }
    }
}
impl<T: Same, E: Same> Same for Result<T, E> {
    fn same_as(&self, o: &Self) -> bool {
        match (self, o) { (Ok(a), Ok(b)) => a.same_as(b), (Err(a), Err(b)) => a.same_as(b), _ => false }
    }
}
impl<T: Same> Same for Vec<T> {
    fn same_as(&self, o: &Self) -> bool { self.len() == o.len() && self.iter().zip(o.iter()).all(|(a, b)| a.same_as(b)) }
}
impl<T: Same> Same for [T] {
    fn same_as(&self, o: &Self) -> bool { self.len() == o.len() && self.iter().zip(o.iter()).all(|(a, b)| a.same_as(b)) }
}
pub fn same<T: Same + ?Sized>(a: &T, b: &T) -> bool {
    a.same_as(b)
}

/// bounds of the sub-slice of a buffer of `len` elements that is passed as a slice argument:
/// mostly the whole buffer, sometimes a proper sub-slice, sometimes an EMPTY slice somewhere
/// inside the buffer (its address is then a real address, unlike that of an empty Vec)
pub fn sub_bounds(g: &mut Gen, len: usize) -> (usize, usize) {
    match g.below(10) {
        0..=5 => (0, len),
        6 | 7 => {
            let lo = g.below(len as u64 + 1) as usize;
            let hi = lo + g.below((len - lo) as u64 + 1) as usize;
            (lo, hi)
        }
        _ => {
            let at = g.below(len as u64 + 1) as usize;
            (at, at)
        }
    }
}

pub fn feq64(a: f64, b: f64) -> bool {
    a.to_bits() == b.to_bits()
}

// raw pointers as opaque values (never dereferenced): Option<*const T> has no niche and must be
// wrapped, unlike Option<&T>
impl Val for *const u8 {
    fn gen(g: &mut Gen) -> Self {
        match g.below(3) {
            0 => std::ptr::null(),
            _ => (0x1000 + g.below(0x10000) * 8) as usize as *const u8,
        }
    }
    fn dig(&self, h: &mut Fnv) {
        h.u64(*self as usize as u64);
    }
}
impl Val for *mut u32 {
    fn gen(g: &mut Gen) -> Self {
        match g.below(3) {
            0 => std::ptr::null_mut(),
            _ => (0x2000 + g.below(0x10000) * 8) as usize as *mut u32,
        }
    }
    fn dig(&self, h: &mut Fnv) {
        h.u64(*self as usize as u64);
    }
}

impl Val for char {
    fn gen(g: &mut Gen) -> Self {
        match g.below(6) {
            0 => '\0',
            1 => '\u{10ffff}',
            2 => 'é',
            3 => '\u{d7ff}',
            _ => char::from_u32(g.below(0x11_0000) as u32).unwrap_or('x'),
        }
    }
    fn dig(&self, h: &mut Fnv) {
        h.u64(*self as u64);
    }
}

#[derive(Clone, Copy, PartialEq, Debug)]
#[repr(C)]
pub struct Pod1 {
    pub a: u32,
    pub b: u8,
    pub c: u64,
}
impl Val for Pod1 {
    fn gen(g: &mut Gen) -> Self {
        Pod1 { a: Val::gen(g), b: Val::gen(g), c: Val::gen(g) }
    }
    fn dig(&self, h: &mut Fnv) {
        h.u64(self.a as u64).u64(self.b as u64).u64(self.c);
    }
}

#[derive(Clone, Copy, Debug)]
#[repr(C)]
pub struct Pod2 {
    pub x: f64,
    pub y: i16,
    pub z: [u8; 3],
}
impl PartialEq for Pod2 {
    fn eq(&self, o: &Self) -> bool {
        self.x.to_bits() == o.x.to_bits() && self.y == o.y && self.z == o.z
    }
}
impl Val for Pod2 {
    fn gen(g: &mut Gen) -> Self {
        Pod2 { x: Val::gen(g), y: Val::gen(g), z: [Val::gen(g), Val::gen(g), Val::gen(g)] }
    }
    fn dig(&self, h: &mut Fnv) {
        h.u64(self.x.to_bits()).u64(self.y as u64).bytes(&self.z);
    }
}

/// zero-sized element type
#[derive(Clone, Copy, PartialEq, Debug)]
#[repr(C)]
pub struct Unit0;
impl Val for Unit0 {
    fn gen(_: &mut Gen) -> Self {
        Unit0
    }
    fn dig(&self, h: &mut Fnv) {
        h.u64(0x2e);
    }
}

impl<T: Val> Val for Option<T> {
    fn gen(g: &mut Gen) -> Self {
        if g.below(3) == 0 {
            None
        } else {
            Some(T::gen(g))
        }
    }
    fn dig(&self, h: &mut Fnv) {
        match self {
            None => {
                h.u64(0);
            }
            Some(v) => {
                h.u64(1);
                v.dig(h);
            }
        }
    }
    fn is_default_like(&self) -> bool {
        self.is_none()
    }
}

impl<T: Val, E: Val> Val for Result<T, E> {
    fn gen(g: &mut Gen) -> Self {
        if g.below(2) == 0 {
            Err(E::gen(g))
        } else {
            Ok(T::gen(g))
        }
    }
    fn dig(&self, h: &mut Fnv) {
        match self {
            Ok(v) => {
                h.u64(0);
                v.dig(h);
            }
            Err(e) => {
                h.u64(1);
                e.dig(h);
            }
        }
    }
    fn is_default_like(&self) -> bool {
        false
    }
}

impl<T: Val> Val for Vec<T> {
    fn gen(g: &mut Gen) -> Self {
        let n = g.len();
        (0..n).map(|_| T::gen(g)).collect()
    }
    fn dig(&self, h: &mut Fnv) {
        dig_slice(self, h);
    }
    fn is_default_like(&self) -> bool {
        self.is_empty()
    }
}

impl Val for String {
    fn gen(g: &mut Gen) -> Self {
        let n = g.len();
        (0..n)
            .map(|_| match g.below(5) {
                0 => 'é',
                1 => '€',
                2 => '😀',
                3 => '\0',
                _ => (b'a' + g.below(26) as u8) as char,
            })
            .collect()
    }
    fn dig(&self, h: &mut Fnv) {
        h.str(self);
    }
    fn is_default_like(&self) -> bool {
        self.is_empty()
    }
}

impl Val for () {
    fn gen(_: &mut Gen) -> Self {}
    fn dig(&self, h: &mut Fnv) {
        h.u64(0x75);
    }
    fn is_default_like(&self) -> bool {
        true
    }
}

pub fn dig_slice<T: Val>(s: &[T], h: &mut Fnv) {
    h.u64(s.len() as u64);
    for x in s {
        x.dig(h);
    }
}

/// an iterator that is not fused: every `gap + 1`-th poll answers `None` (gap 0: never), the
/// items come in order on the other polls
pub struct Gappy<T> {
    items: std::collections::VecDeque<T>,
    gap: usize,
    polls: usize,
}
impl<T> Gappy<T> {
    pub fn new(v: Vec<T>, gap: usize) -> Self {
        Gappy { items: v.into(), gap, polls: 0 }
    }
    /// what has not been handed out yet
    pub fn rest(self) -> Vec<T> {
        self.items.into()
    }
}
impl<T> Iterator for Gappy<T> {
    type Item = T;
    fn next(&mut self) -> Option<T> {
        self.polls += 1;
        if self.gap > 0 && self.polls % (self.gap + 1) == 0 {
            return None;
        }
        self.items.pop_front()
    }
}

/// references that are not borrowed from the implementor (`&'static` returns)
pub fn static_str(h: u64) -> &'static str {
    ["", "static", "\u{17e}lu\u{165}", "a\0b", "0123456789abcdef0123456789abcdef!"][(h % 5) as usize]
}
pub fn static_bytes(h: u64) -> &'static [u8] {
    [&b""[..], &b"\0"[..], &[0xff, 0xfe, 0x00, 0x80][..], &b"static bytes"[..]][(h % 4) as usize]
}
pub fn static_words(h: u64) -> &'static [u64] {
    static W: [u64; 5] = [0, u64::MAX, 1 << 63, 7, 0x0123_4567_89ab_cdef];
    [&W[..0], &W[..1], &W[1..], &W[..]][(h % 4) as usize]
}

pub fn gen<T: Val>(seed: u64) -> T {
    T::gen(&mut Gen::new(seed))
}

/// an error type whose integer coding is LOSSY (only `code` survives): it may only travel in full,
/// as the Err of a plain `Result` (CResult), never integer-coded
#[repr(C)]
#[derive(Clone, Copy, PartialEq, Debug)]
pub struct LErr {
    pub code: i32,
    pub extra: u32,
}
impl cglue::result::IntError for LErr {
    fn into_int_err(self) -> std::num::NonZeroI32 {
        std::num::NonZeroI32::new(self.code).unwrap_or(std::num::NonZeroI32::new(-9).unwrap())
    }
    fn from_int_err(e: std::num::NonZeroI32) -> Self {
        LErr { code: e.get(), extra: 0 }
    }
}
impl Val for LErr {
    fn gen(g: &mut Gen) -> Self {
        let c = g.int(32) as i32;
        LErr { code: if c == 0 { -9 } else { c }, extra: (g.int(32) as u32) | 1 }
    }
    fn dig(&self, h: &mut Fnv) {
        h.u64(self.code as u64);
        h.u64(self.extra as u64);
    }
}

/// result aliases, named in `#[int_result(Alias)]`
pub type ResU<T> = Result<T, UErr>;
pub type ResIo<T> = Result<T, std::io::Error>;

/// user error type with an integer encoding
#[derive(Clone, Copy, PartialEq, Debug)]
pub struct UErr(pub i32);
impl cglue::result::IntError for UErr {
    fn into_int_err(self) -> std::num::NonZeroI32 {
        std::num::NonZeroI32::new(self.0).unwrap_or(std::num::NonZeroI32::new(-9).unwrap())
    }
    fn from_int_err(e: std::num::NonZeroI32) -> Self {
        UErr(e.get())
    }
}
impl Val for UErr {
    fn gen(g: &mut Gen) -> Self {
        let v = g.int(32) as i32;
        UErr(if v == 0 { -9 } else { v })
    }
    fn dig(&self, h: &mut Fnv) {
        h.u64(self.0 as u64);
    }
}

/// io::Error has no PartialEq: compare by OS code
pub fn gen_io_result<T: Val>(g: &mut Gen) -> Result<T, std::io::Error> {
    if g.below(2) == 0 {
        let c = g.int(32) as i32;
        Err(std::io::Error::from_raw_os_error(if c == 0 { 5 } else { c }))
    } else {
        Ok(T::gen(g))
    }
}
pub fn same_io_result<T: PartialEq>(a: &Result<T, std::io::Error>, b: &Result<T, std::io::Error>) -> bool {
    match (a, b) {
        (Ok(x), Ok(y)) => x == y,
        (Err(x), Err(y)) => x.raw_os_error() == y.raw_os_error(),
        _ => false,
    }
}

// ---------------------------------------------------------------------------------------------
// the observable part of an implementor: survives moving the implementor into an opaque object

#[derive(Clone, Copy, PartialEq, Eq, Debug)]
pub struct Event {
    pub method: u32,
    pub args: u64,
}

#[derive(Default)]
pub struct Shared {
    pub state: AtomicU64,
    pub log: Mutex<Vec<Event>>,
    /// (address, length) of every reference-like argument seen by the last call
    pub ptrs: Mutex<Vec<(usize, usize)>>,
    /// (address, length) of what the last call lent out
    pub lent: Mutex<(usize, usize)>,
    /// instance id of the implementor that executed the last call
    pub last_instance: AtomicU64,
    /// state right after the last (non-post) event: the hash the callee derived its effects from
    pub last_h: AtomicU64,
}

impl Shared {
    pub fn new(seed: u64) -> Arc<Shared> {
        let _g = verifkit::alloc::Exempt::new();
        let s = Shared::default();
        s.state.store(seed, SeqCst);
        Arc::new(s)
    }
    pub fn state(&self) -> u64 {
        self.state.load(SeqCst)
    }
    pub fn last_h(&self) -> u64 {
        self.last_h.load(SeqCst)
    }
    pub fn last_instance(&self) -> u64 {
        self.last_instance.load(SeqCst)
    }
    pub fn log(&self) -> Vec<Event> {
        let _g = verifkit::alloc::Exempt::new();
        self.log.lock().unwrap().clone()
    }
    pub fn take_ptrs(&self) -> Vec<(usize, usize)> {
        let _g = verifkit::alloc::Exempt::new();
        std::mem::take(&mut *self.ptrs.lock().unwrap())
    }
    pub fn lent(&self) -> (usize, usize) {
        *self.lent.lock().unwrap()
    }
}

/// The stateful core embedded in every generated implementor.
pub struct Core {
    pub sh: Arc<Shared>,
    pub tok: HeapTok,
    pub id: u64,
    // buffers to lend from
    pub name: String,
    pub bytes: Vec<u8>,
    pub words: Vec<u64>,
    pub pods: Vec<Pod1>,
    pub one: u64,
    pub pod: Pod1,
    pub mwords: Vec<u32>,
    pub mone: u64,
}

impl Core {
    pub fn new(sh: Arc<Shared>, id: u64) -> Core {
        let mut g = Gen::new(sh.state() ^ id);
        Core {
            tok: HeapTok::new(id),
            id,
            name: "lént-naïve-😀-string".to_string(),
            bytes: (0..23).map(|_| g.next() as u8).collect(),
            words: (0..9).map(|_| g.next()).collect(),
            pods: (0..4).map(|_| Val::gen(&mut g)).collect(),
            one: g.next(),
            pod: Val::gen(&mut g),
            mwords: (0..7).map(|_| g.next() as u32).collect(),
            mone: g.next(),
            sh,
        }
    }

    /// Record a call: fold (method, argument digest) into the state, log it, return the new state.
    pub fn enter(&self, method: u32, args: u64) -> u64 {
        let _g = verifkit::alloc::Exempt::new();
        let old = self.sh.state.load(SeqCst);
        let mut h = Fnv::new();
        h.u64(old).u64(method as u64).u64(args);
        let new = h.get();
        self.sh.state.store(new, SeqCst);
        self.sh.log.lock().unwrap().push(Event { method, args });
        self.sh.last_instance.store(self.id, SeqCst);
        self.sh.ptrs.lock().unwrap().clear();
        self.sh.last_h.store(new, SeqCst);
        assert_eq!(self.tok.val(), self.id, "implementor token corrupted");
        new
    }
    /// Second event of a call (what the callee drew from callbacks / iterators).
    pub fn enter_post(&self, method: u32, digest: u64) {
        let _g = verifkit::alloc::Exempt::new();
        let old = self.sh.state.load(SeqCst);
        let mut h = Fnv::new();
        h.u64(old).u64(method as u64 | 0x8000).u64(digest);
        self.sh.state.store(h.get(), SeqCst);
        self.sh.log.lock().unwrap().push(Event { method: method | 0x8000, args: digest });
    }
    pub fn saw(&self, addr: usize, len: usize) {
        let _g = verifkit::alloc::Exempt::new();
        self.sh.ptrs.lock().unwrap().push((addr, len));
    }
    fn lend(&self, addr: usize, len: usize) {
        *self.sh.lent.lock().unwrap() = (addr, len);
    }
    pub fn lend_str(&self, h: u64) -> &str {
        // cut on a char boundary chosen by h (including the empty prefix)
        let mut k = (h % (self.name.len() as u64 + 1)) as usize;
        while !self.name.is_char_boundary(k) {
            k -= 1;
        }
        let s = &self.name[..k];
        self.lend(s.as_ptr() as usize, s.len());
        s
    }
    pub fn lend_bytes(&self, h: u64) -> &[u8] {
        let s = &self.bytes[..(h % (self.bytes.len() as u64 + 1)) as usize];
        self.lend(s.as_ptr() as usize, s.len());
        s
    }
    pub fn lend_words(&self, h: u64) -> &[u64] {
        let s = &self.words[..(h % (self.words.len() as u64 + 1)) as usize];
        self.lend(s.as_ptr() as usize, s.len());
        s
    }
    pub fn lend_pods(&self, h: u64) -> &[Pod1] {
        let s = &self.pods[..(h % (self.pods.len() as u64 + 1)) as usize];
        self.lend(s.as_ptr() as usize, s.len());
        s
    }
    pub fn lend_one(&self, _h: u64) -> &u64 {
        self.lend(&self.one as *const u64 as usize, 1);
        &self.one
    }
    pub fn lend_pod(&self, _h: u64) -> &Pod1 {
        self.lend(&self.pod as *const Pod1 as usize, 1);
        &self.pod
    }
    pub fn lend_opt_one(&self, h: u64) -> Option<&u64> {
        if h % 3 == 0 {
            self.lend(0, 0);
            None
        } else {
            Some(self.lend_one(h))
        }
    }
    pub fn lend_mwords(&mut self, h: u64) -> &mut [u32] {
        let n = (h % (self.mwords.len() as u64 + 1)) as usize;
        if let Some(f) = self.mwords.first_mut() {
            *f = h as u32;
        }
        let s = &mut self.mwords[..n];
        *self.sh.lent.lock().unwrap() = (s.as_ptr() as usize, s.len());
        s
    }
    pub fn lend_mone(&mut self, h: u64) -> &mut u64 {
        self.mone = h;
        *self.sh.lent.lock().unwrap() = (&self.mone as *const u64 as usize, 1);
        &mut self.mone
    }
}

/// digest helper used by generated implementors
pub fn fnv() -> Fnv {
    Fnv::new()
}

/// A custom (non-arc) context: cloneable, Send + Sync + 'static, counts its live clones.
pub struct CountCtx(pub Arc<AtomicU64>);
impl CountCtx {
    pub fn new(c: &Arc<AtomicU64>) -> Self {
        c.fetch_add(1, SeqCst);
        CountCtx(c.clone())
    }
}
impl Clone for CountCtx {
    fn clone(&self) -> Self {
        self.0.fetch_add(1, SeqCst);
        CountCtx(self.0.clone())
    }
}
impl Drop for CountCtx {
    fn drop(&mut self) {
        self.0.fetch_sub(1, SeqCst);
    }
}

/// Payload of the reference-counted context.
pub struct CtxPayload(pub u64);

// ---------------------------------------------------------------------------------------------
// oracles shared by all generated drivers

use verifkit::{CaseResult, Ctx, Fail, Info};

#[derive(Default, Debug, Clone)]
pub struct Flags {
    pub kind: &'static str,
    pub calls: u32,
    pub methods: u64,
    pub mutated: bool,
    pub mutated_then_read: bool,
    pub wrapped_nondefault: bool,
    pub transfers: u32,
    pub ctx_derived: u32,
    pub borrowed_children: u32,
    pub int_result_calls: u32,
    pub ctx_leak_tolerated: bool,
    pub casts: u32,
    pub nmeth: u32,
}

pub const K_C07_RETTMP: &str = "C07:borrowed-wrapped-return:ctx-clone-not-released";

/// After every call: both implementors must have seen the same events (same methods, same
/// argument digests, same count) and the call must have reached the wrapped instance.
pub fn check_step(sw: &Shared, sr: &Shared, wid: u64, mname: &str) -> Result<(), Fail> {
    let _g = verifkit::alloc::Exempt::new();
    let (lw, lr) = (sw.log(), sr.log());
    for (i, (a, b)) in lw.iter().zip(lr.iter()).enumerate() {
        if a.method != b.method {
            return Err(Fail::new(
                "C01:dispatch",
                format!("{mname}: event {i}: the opaque object ran method #{} where the direct call ran method #{}", a.method, b.method),
            ));
        }
        if a.args != b.args {
            return Err(Fail::new(
                "C02:arg-value",
                format!("{mname}: event {i} (method #{}): the implementor behind the opaque object received different argument values (digest {:x} vs {:x})", a.method, a.args, b.args),
            ));
        }
    }
    if lw.len() != lr.len() {
        return Err(Fail::new(
            "C01:call-count",
            format!("{mname}: the implementor behind the opaque object was entered {} times, the directly called one {} times", lw.len(), lr.len()),
        ));
    }
    if sw.state() != sr.state() {
        return Err(Fail::new("C01:state", format!("{mname}: implementor states differ after identical events")));
    }
    if !lw.is_empty() && sw.last_instance() != wid {
        return Err(Fail::new(
            "C01:wrong-instance",
            format!("{mname}: the call reached instance {:#x}, the object was built from instance {:#x}", sw.last_instance(), wid),
        ));
    }
    Ok(())
}

pub fn borrowed_not_dropped(tok: u32) -> Result<(), Fail> {
    if verifkit::tok::drops(tok) != 0 {
        return Err(Fail::new("C06:borrowed-dropped", "a by-reference object dropped the value it only borrowed".to_string()));
    }
    Ok(())
}

pub fn ctx_count_check(vc: &Ctx, actual: usize, expected: usize, fl: &Flags) -> Result<(), Fail> {
    if actual == expected {
        return Ok(());
    }
    if fl.borrowed_children > 0 && actual == expected + fl.borrowed_children as usize && vc.known(K_C07_RETTMP) {
        return Ok(());
    }
    Err(Fail::new(
        "C07:ctx-count",
        format!(
            "context reference count is {actual}, expected {expected} (object + live derived objects; {} borrowed wrapped returns so far, container {})",
            fl.borrowed_children, fl.kind
        ),
    ))
}

pub fn ctx_count_end(vc: &Ctx, arc_count: usize, base: usize, cnt: usize, fl: &mut Flags) -> Result<(), Fail> {
    let leak = fl.borrowed_children as usize;
    let arc_ok = arc_count == base;
    let cnt_ok = cnt == 0;
    if arc_ok && cnt_ok {
        return Ok(());
    }
    let arc_tol = arc_ok || (leak > 0 && arc_count == base + leak);
    let cnt_tol = cnt_ok || (leak > 0 && cnt == leak);
    if arc_tol && cnt_tol && vc.known(K_C07_RETTMP) {
        fl.ctx_leak_tolerated = true;
        return Ok(());
    }
    Err(Fail::new(
        "C07:ctx-count",
        format!(
            "after all derived objects were dropped the context count is {} (start value {base}), live custom contexts {cnt}; {} borrowed wrapped returns, container {}",
            arc_count, leak, fl.kind
        ),
    ))
}

pub fn end_of_case_checks(_vc: &Ctx, rep: &verifkit::alloc::Report, fl: &Flags) -> Result<(), Fail> {
    let bad = verifkit::tok::mismatches(|_| 1);
    if !bad.is_empty() {
        return Err(Fail::new(
            "C06:drop-count",
            format!("values whose destructor ran a number of times other than once (token, expected, seen): {:?} (container {})", &bad[..bad.len().min(5)], fl.kind),
        ));
    }
    if !rep.misuses.is_empty() {
        return Err(Fail::new("C06:alloc-misuse", format!("{} (container {})", rep.describe(), fl.kind)));
    }
    if !rep.leaked.is_empty() && !fl.ctx_leak_tolerated {
        return Err(Fail::new("C06:leak", format!("{} (container {})", rep.describe(), fl.kind)));
    }
    Ok(())
}

/// A generated case: container kind + call sequence (method choice, value seed).
#[derive(Debug, Clone, serde::Serialize, serde::Deserialize)]
pub struct Case {
    pub kind: u8,
    pub ops: Vec<(u8, u64)>,
}

pub fn case_strategy(max_ops: usize) -> impl proptest::strategy::Strategy<Value = Case> {
    use proptest::prelude::*;
    (any::<u8>(), prop::collection::vec((any::<u8>(), any::<u64>()), 1..max_ops)).prop_map(|(kind, ops)| Case { kind, ops })
}

/// Which failure keys a property's check reports.
pub fn relevant(prop: &str, key: &str) -> bool {
    match prop {
        // every differential failure is a failure of "behaves like direct calls"
        "C01" => key.starts_with("C01:") || key.starts_with("C02:") || key == "panic",
        p => key.starts_with(&format!("{p}:")) || (key == "panic" && p == "C06"),
    }
}

pub fn to_info(prop: &str, res: Result<Flags, Fail>) -> CaseResult {
    match res {
        Err(f) => {
            if relevant(prop, &f.key) {
                Err(f)
            } else {
                Ok(Info::new(false).class("failed-for-another-property"))
            }
        }
        Ok(fl) => {
            let has_ctx = fl.kind.contains("ctx");
            let nt = match prop {
                "C01" => fl.calls >= 2 && fl.mutated_then_read && (fl.nmeth <= 1 || fl.methods.count_ones() >= 2),
                "C02" => fl.wrapped_nondefault,
                "C06" => fl.transfers > 0 || fl.casts > 0,
                "C07" => has_ctx && (fl.ctx_derived > 0 || fl.borrowed_children > 0),
                "C13" => fl.int_result_calls > 0,
                "C04" => fl.nmeth >= 2,
                _ => true,
            };
            Ok(Info::new(nt)
                .class(format!("container:{}", fl.kind))
                .class_if(fl.transfers > 0, "ownership-transfer")
                .class_if(fl.borrowed_children > 0, "borrowed-wrapped-return")
                .class_if(fl.int_result_calls > 0, "int-result-call")
                .class_if(fl.wrapped_nondefault, "wrapped-shape-nondefault")
                .class_if(fl.casts > 0, "cast"))
        }
    }
}

pub fn rule_for(prop: &str) -> &'static str {
    match prop {
        "C01" => "generated traits (grammar G: receivers x argument shapes x return shapes x int_result x wrapped associated types) x every admissible container kind (boxed value, CBox, &mut, &, CArcSome; no context, CArc context, custom counting context) x proptest call sequences of 1..24 calls; every call is made through the opaque object and directly on a twin implementor; returns, event logs (method id + argument digest), state hash chain and instance id are compared after every call. Non-trivial = >= 2 calls, a state-mutating call followed by a state-dependent return, and >= 2 distinct methods for multi-method traits; distinct by digest of (module, container, sequence)",
        "C02" => "same generated programs; the oracle parts that concern values: argument digests seen by the implementor, (address, length) of every reference-like argument as seen by the implementor vs as passed, returned values vs values computed by the direct call, address identity of borrowed returns vs what the implementor lent, writes through &mut / &mut [T] visible in the caller's buffer, callback sinks and iterator remainders. Non-trivial = the case carries a wrapped shape with a non-default value (non-empty slice, Some, Err, non-ASCII string, write through &mut)",
        "C06" => "same generated programs with the lifecycle oracle: every implementor, child and payload token is dropped exactly once by the end of the case, by-reference containers have not dropped what they borrow when the object is gone, allocation window balanced with matching layouts. Non-trivial = the sequence contains an ownership transfer (consuming call, wrapped owned/borrowed return, cast)",
        "C07" => "same generated programs on containers that carry a context (CArc<payload> or a counting Clone context): after every call the context count equals start + object + live derived objects, and returns to the start value when everything derived is dropped. Non-trivial = a derived object (wrapped return) was obtained from an object that carries a context",
        "C04" => "same generated programs; for every (definition, container kind) case: the concrete object is built, its size/alignment is compared with the opaque form and into_opaque must preserve every byte; the static vtable obtained through the public accessor is read as raw words: its size must be exactly one pointer per exported method and word i must equal the public getter of the method declared at position i; groups: vtable pointers read from the raw words of the group object must sit at mandatory-by-name then optional-by-name positions (null exactly when not enabled), followed by the container (instance, context), with no extra field. Non-trivial = at least two methods / two vtables (so that an order exists to be wrong)",
        "C13" => "same generated programs restricted to the integer-result productions (trait-level and method-level int_result, no_int_result overrides, io::Error / () / user IntError, unit and non-unit payloads, wrapped objects as payloads): the decoded Result must equal the direct call's Result. Non-trivial = at least one int_result method was called",
        _ => "generated programs",
    }
}

// ---------------------------------------------------------------------------------------------
// C04 oracles

/// Opaque and concrete form: same size, same alignment, and the conversion preserves every byte.
pub fn into_opaque_checked<C: cglue::trait_group::Opaquable>(c: C) -> Result<C::OpaqueTarget, Fail> {
    use std::mem::{align_of, size_of};
    let name = std::any::type_name::<C>();
    if size_of::<C>() != size_of::<C::OpaqueTarget>() || align_of::<C>() != align_of::<C::OpaqueTarget>() {
        return Err(Fail::new(
            "C04:opaque-size",
            format!("opaque and concrete form differ in size/alignment: ({}, {}) vs ({}, {}) for {}", size_of::<C>(), align_of::<C>(), size_of::<C::OpaqueTarget>(), align_of::<C::OpaqueTarget>(), &name[..name.len().min(120)]),
        ));
    }
    let n = size_of::<C>();
    let before: Vec<u8> = verifkit::alloc::exempt(|| unsafe { std::slice::from_raw_parts(&c as *const C as *const u8, n).to_vec() });
    let o = c.into_opaque();
    let same = unsafe { std::slice::from_raw_parts(&o as *const C::OpaqueTarget as *const u8, n) } == &before[..];
    verifkit::alloc::exempt(|| drop(before));
    if !same {
        std::mem::forget(o);
        return Err(Fail::new("C04:opaque-bits", format!("into_opaque changed the bit pattern of {}", &name[..name.len().min(120)])));
    }
    Ok(o)
}

/// A vtable is exactly one function pointer per exported method, in declaration order.
pub fn vtable_words_check(words: *const usize, size: usize, getters: &[usize], tname: &str) -> Result<(), Fail> {
    let n = getters.len();
    if size != n * std::mem::size_of::<usize>() {
        return Err(Fail::new(
            "C04:vtable-size",
            format!("vtable of {tname} occupies {size} bytes, {n} exported methods need {} (one function pointer each, nothing else)", n * std::mem::size_of::<usize>()),
        ));
    }
    if n == 0 {
        // a trait whose methods are all #[skip_func]: the vtable is an empty struct (its address
        // is not a word address)
        return Ok(());
    }
    let w = unsafe { std::slice::from_raw_parts(words, n) };
    for i in 0..n {
        if w[i] != getters[i] {
            let at = w.iter().position(|x| *x == getters[i]);
            return Err(Fail::new(
                "C04:vtable-order",
                format!("vtable of {tname}: word {i} is not the entry of the method declared at position {i} (that entry sits at word {:?})", at),
            ));
        }
    }
    Ok(())
}

/// C04: a single-trait object is {vtable pointer, container}, and the container is
/// {instance handle, context, temporary storage} in that order (what the headers publish as
/// `CGlueObjContainer_..`), for every instance / context / storage choice.
pub fn obj_container_check<O, R>(o: &O, tname: &str) -> Result<(), Fail>
where
    O: cglue::trait_group::GetContainer,
    O::ContType: cglue::trait_group::CGlueObjRef<R>,
{
    use cglue::trait_group::{CGlueObjBase, CGlueObjRef};
    use std::mem::{align_of, size_of, size_of_val};
    let up = |x: usize, a: usize| (x + a - 1) / a * a;
    let w = size_of::<usize>();
    let base = o as *const O as usize;
    let cont = o.ccont_ref();
    let ca = cont as *const O::ContType as usize;
    if ca != base + w || size_of::<O>() != w + size_of_val(cont) {
        return Err(Fail::new("C04:object-container", format!("object of {tname}: container at offset {} of a {}-byte object with a {}-byte container; expected one vtable pointer, then the container, nothing else", ca.wrapping_sub(base), size_of::<O>(), size_of_val(cont))));
    }
    let (inst, rt, ctx) = cont.cobj_ref();
    let inst = inst as *const <O::ContType as CGlueObjBase>::ObjType as *const u8 as usize;
    let first = unsafe { *(ca as *const usize) };
    if first != inst {
        return Err(Fail::new("C04:object-container", format!("object of {tname}: the first word of the container is not the instance pointer")));
    }
    let isz = size_of::<<O::ContType as CGlueObjBase>::InstType>();
    let csz = size_of::<<O::ContType as CGlueObjBase>::Context>();
    let want_ctx = up(ca + isz, align_of::<<O::ContType as CGlueObjBase>::Context>());
    let ctx = ctx as *const _ as usize;
    if csz > 0 && ctx != want_ctx {
        return Err(Fail::new("C04:object-container", format!("object of {tname}: the context sits at offset {} of the container, expected {} (right after the instance handle)", ctx.wrapping_sub(ca), want_ctx - ca)));
    }
    let want_rt = up(want_ctx + csz, align_of::<R>());
    let rt = rt as *const R as usize;
    if size_of::<R>() > 0 && rt != want_rt {
        return Err(Fail::new("C04:object-container", format!("object of {tname}: the temporary storage sits at offset {} of the container, expected {} (after instance handle and context)", rt.wrapping_sub(ca), want_rt - ca)));
    }
    Ok(())
}

/// C13: the vtable entry of a method marked to use integer results returns the integer code.
pub fn int_entry_check<F>(_entry: &F, name: &str, has_payload: bool) -> Result<(), Fail> {
    let ty = std::any::type_name::<F>();
    if !ty.ends_with("-> i32") {
        return Err(Fail::new("C13:entry-not-integer-coded", format!("method {name} is marked to use integer results, but its vtable entry is `{ty}`")));
    }
    // the success value travels through a trailing `&mut MaybeUninit<T>` parameter
    let args = &ty[..ty.len() - "-> i32".len()];
    if has_payload && !args.trim_end().trim_end_matches(')').contains("MaybeUninit<") {
        return Err(Fail::new("C13:entry-without-output-slot", format!("method {name} returns a success value as an integer-coded result, but the vtable entry obtained by name has no output slot: `{ty}`")));
    }
    Ok(())
}

pub fn vt_ptr<V, G: cglue::trait_group::GetVtblBase<V>>(g: &G) -> usize {
    g.get_vtbl_base() as *const V as usize
}

/// After the vtable pointers comes the container: instance, then context; nothing else.
#[allow(clippy::too_many_arguments)]
pub fn group_container_check(base: usize, total: usize, n_vt: usize, cont: usize, cont_size: usize, inst_ctx: (usize, usize), inst_size: usize, name: &str) -> Result<(), Fail> {
    let w = std::mem::size_of::<usize>();
    if cont != base + n_vt * w {
        return Err(Fail::new("C04:group-container", format!("group {name}: the container starts at offset {}, expected {} (right after {n_vt} vtable pointers)", cont.wrapping_sub(base), n_vt * w)));
    }
    if total != n_vt * w + cont_size {
        return Err(Fail::new("C04:group-size", format!("group {name}: size {total} != {n_vt} vtable pointers + container ({cont_size} bytes): an extra field")));
    }
    let first = unsafe { *(cont as *const usize) };
    if first != inst_ctx.0 {
        return Err(Fail::new("C04:group-container", format!("group {name}: the first word of the container is not the instance pointer")));
    }
    if inst_ctx.1 != cont + inst_size {
        return Err(Fail::new("C04:group-container", format!("group {name}: the context sits at offset {} of the container, expected {inst_size} (right after the instance handle)", inst_ctx.1.wrapping_sub(cont))));
    }
    Ok(())
}

/// the first `n` machine words of a value (vtable pointer area of a group object)
pub fn raw_words<T>(t: &T, n: usize) -> [usize; 8] {
    let mut out = [0usize; 8];
    let n = n.min(8).min(std::mem::size_of::<T>() / std::mem::size_of::<usize>());
    for (i, o) in out.iter_mut().enumerate().take(n) {
        *o = unsafe { *(t as *const T as *const usize).add(i) };
    }
    out
}

/// the final form (`into!`) of a group is itself a group object: mandatory vtable pointers in
/// name order, then the kept optional ones in name order, then the container
pub fn final_words_check(before: &[usize; 8], after: &[usize; 8], n_mand: usize, opt_pos: &[usize], group: &str, what: &str) -> Result<(), Fail> {
    let mut want = [0usize; 8];
    want[..n_mand].copy_from_slice(&before[..n_mand]);
    for (i, p) in opt_pos.iter().enumerate() {
        want[n_mand + i] = before[*p];
    }
    let n = n_mand + opt_pos.len();
    if after[..n] != want[..n] {
        return Err(Fail::new("C04:final-layout", format!("group {group}: the final form for {what} holds the vtable-pointer words {:x?}; expected the mandatory ones in name order followed by the kept optional ones in name order: {:x?}", &after[..n], &want[..n])));
    }
    Ok(())
}

/// the cast ("With") form of a group must have the very layout of the base group
pub fn same_words(a: &[usize; 8], b: &[usize; 8], group: &str, what: &str) -> Result<(), Fail> {
    if a != b {
        return Err(Fail::new("C04:with-layout", format!("group {group}: after {what} the vtable-pointer words of the object are {:x?}, before they were {:x?} (the cast form does not have the layout of the base group)", b, a)));
    }
    Ok(())
}
