#!/usr/bin/env python3
"""Regenerates /verif/MANIFEST.json from the table below (single source of truth)."""
import json, os
ROOT = os.path.dirname(os.path.dirname(os.path.abspath(__file__)))

# id -> (built, engine, technique, level text, level note, design ref)
P = {
 "C11": (True, "rtprops",
         "model-based PBT (proptest histories vs Vec model) + exhaustive short histories, tracking allocator and drop tokens",
         "Generated operation histories (exhaustive up to a length bound over an 11-op alphabet, random up to 400 ops) are applied to a CVec and to a Vec; contents, len, capacity, panics, per-element drop counts, allocator balance/layout and the use of the stored reserve/drop functions are compared after every step. Exploration: finds counter-examples, never proves absence.",
         "Vec<T> as reference model; repr(C) field view of CVec as published; tracking allocator in the harness",
         "DESIGN.md 4/C11"),
}
NOT_YET = "check not built yet in this round (see DESIGN.md section 4 for the planned generator and oracle)"

def main():
    checks, na = [], []
    ids = [json.loads(l)["id"] for l in open(os.path.join(ROOT, "properties.jsonl"))]
    for pid in ids:
        if pid in P and P[pid][0]:
            _, engine, tech, text, note, ref = P[pid]
            checks.append({
                "property_id": pid,
                "quick_cmd": f"./check {pid} --tier quick",
                "thorough_cmd": f"./check {pid} --tier thorough",
                "evidence_file": f"evidence/{pid}.json",
                "replay_cmd_template": f"./check {pid} --replay {{path}}",
                "engine": engine,
                "level_claimed": {"category": "exploration", "text": text, "design_ref": ref},
                "level_note": note,
                "technique": tech,
            })
        else:
            na.append({"property_id": pid, "reason": NA.get(pid, NOT_YET)})
    m = {
        "version": 1,
        "setup_cmd": "./setup.sh",
        "hooks": {
            "guard": "h33p_cglue_verif",
            "enable": "no hooks are needed: every observation point is reachable through cglue's public API, generated code, a tracking global allocator in the harness and the repr(C) layouts the library publishes",
            "baseline_off_cmd": "cd /repo && cargo test --workspace --no-fail-fast --offline",
            "source_commits": [],
            "add_only": True,
        },
        "engines": ENGINES,
        "checks": checks,
        "notes": "All checks are property-based tests / fuzzing harnesses under /verif/harness driven by ./check; see DESIGN.md. known_findings.json lists genuine defects (status known) and repaired ones (status fixed).",
        "not_applicable": na,
    }
    json.dump(m, open(os.path.join(ROOT, "MANIFEST.json"), "w"), indent=1)
    print(f"{len(checks)} checks, {len(na)} not_applicable")

NA = {}
ENGINES = [
 {"name": "verifkit", "path": "harness/verifkit", "serves_properties": [], "kind_free_text": "tracking global allocator, drop tokens, proptest runner with fixed seeds, statistics, replay protocol"},
 {"name": "rtprops", "path": "harness/rtprops", "serves_properties": ["C11"], "kind_free_text": "proptest histories against std models for the runtime types"},
 {"name": "check", "path": "check", "serves_properties": [], "kind_free_text": "python driver: build, run, known-findings protocol, evidence"},
]
if __name__ == "__main__":
    main()
