#!/usr/bin/env python3
"""Regenerates /verif/MANIFEST.json from the table below (single source of truth)."""
import json, os
ROOT = os.path.dirname(os.path.dirname(os.path.abspath(__file__)))

# id -> (built, engine, technique, level text, level note, design ref)
P = {
 "C01": (True, "progbatch",
         "grammar-based program generation + differential PBT: generated traits compiled against the tree, proptest call sequences through opaque objects vs direct calls on a twin implementor",
         "A seeded grammar generates batches of cglue traits (5 receiver kinds x 14 argument shapes x 15 return shapes incl. int_result, result aliases, -> Self and wrapped associated objects/groups also inside Result, &'static str / slice returns for every receiver, associated types with and without a lifetime bound; doc comments and inert attributes whose text names the generator's attributes; trait-level generics, Send/Sync supertraits, provided / #[skip_func] / #[vtbl_only] methods, extern \"C\"/unsafe methods, module-path spellings of Option/Result; ten measured-rare features are forced into every batch; drivers end with two children lent by different &self methods alive together) and groups over them (aliases, generic members, casts, cast back through From, final forms) with stateful implementors; each batch is compiled against /repo's current tree and every admissible container kind (boxed, CBox, &mut, &, CArcSome; without context, with CArc and with a counting context) is driven by generated call sequences. After every call returns, event logs (method id + argument digest), state hash chain and instance id are compared with direct calls on a twin. A failing trait program is shrunk structurally (methods deleted while the violation key reproduces) and the reduced program is named in the replay. Exploration over a large but finite grammar.",
         "generated implementor driven directly is the reference; definitions rejected by rustc on the current tree are retried without by-name vtable getters, then counted as compile_rejected (NOTE on stderr)",
         "DESIGN.md 4/C01"),
 "C02": (True, "progbatch",
         "same generated programs; absolute value/address oracles inside the implementor and the caller",
         "For every wrapped shape in every argument/return position the grammar admits: the implementor digests what it received and records (address,len) of every reference-like argument, lends borrowed returns from known buffers, writes patterns through &mut / &mut [T]; the caller compares with what it sent, with the direct call's result, with the lent address and with its own buffers; values are biased to the corners (empty, zero-sized elements, non-ASCII, None/Some, Ok/Err, extreme integers, NaN payloads).",
         "digest collisions (64-bit FNV) are ignored",
         "DESIGN.md 4/C02"),
 "C03": (True, "expander+lint",
         "systematic enumeration + random generation of definitions; oracle 1: rustc's improper_ctypes lints on expansions written out as source with probe declarations; oracle 2: structural check of the token stream",
         "All single-method traits over (5 receivers x 23 argument shape classes x up to 20 return shape classes x int_result on/off) = 3.8k definitions plus random multi-method traits (generic, aliased results, wrapped returns inside Result, path spellings), hand-written alias/no_int_result/extern \"C\" definitions and groups (5.9k in all) are expanded in-process by /repo's cglue_gen used as a library. Every expansion is checked structurally (every vtable entry and wrapper extern \"C\", no slice/str/tuple/Result/non-NPO Option/Rust-ABI fn/std container in a signature, repr on every generated struct); a sample (quick: every 13th + all random; thorough: all) is written into a crate with #![deny(improper_ctypes, improper_ctypes_definitions)] together with extern \"C\" probes over the opaque Box/ArcBox/Mut/Ref/ArcRef object types and over every runtime wrapper type and the objects of the built-in external traits (Clone, Debug, Display, AsRef, Future, Stream, Sink; features task + futures), and compiled; a syn-based audit requires a repr on every public runtime type; eight ABI probes (one process each) let a panic reach every hand-written extern \"C\" function of the runtime types and a generated vtable entry and require an abort, not an unwind (a Rust-ABI function behind a transmute unwinds).",
         "the installed stable rustc's lints are the yardstick; leaf types are restricted to what that lint accepts (no char), extern \"C\" trait methods only get C-safe user signatures",
         "DESIGN.md 4/C03"),
 "C04": (True, "progbatch+expander",
         "generated programs with raw-word layout oracles + expansion determinism over fresh processes",
         "In every generated (definition, container) case the concrete object is compared with its opaque form (size, alignment, all bytes preserved by into_opaque) and the static vtable is read as raw words: exactly one pointer per exported method, word i == public getter of the i-th declared method. Generated groups: vtable pointers read from the raw words of the group object must sit at mandatory-by-name then optional-by-name positions (name = the identifier resp. alias, compared as bytes; trait names and aliases are generated with mixed case so that this differs from the order ignoring case; null exactly when not enabled), then the container (instance first, context next, no extra field), and the cast form must have the identical words, the final (into!) form the kept pointers in name order; every single-trait object is {vtable pointer, container{instance, context, temporary storage}} at the computed offsets, and a borrowed wrapped return lies inside the object that lent it; from the expansion, every group struct lists its vtable pointers and its container the temporary storage of its traits as mandatory-by-name then optional-by-name. Each definition is also expanded (plain and through the #[cglue_trait_ext] route) in 8 (quick) / 32 (thorough) fresh processes under three expanding crates and the ordered (struct, fields) lists of all repr(C) structs must be identical.",
         "vtable pointers are obtained through public accessors (get_vtbl, GetVtblBase, cast+upcast), never through field names",
         "DESIGN.md 4/C04"),
 "C06": (True, "rtprops+progbatch",
         "stateful PBT over object-pool histories of a hand-written trait family + lifecycle oracle on generated programs; drop tokens and tracking allocator",
         "Histories {create object/group, call, owned/borrowed wrapped children, Clone via group, cast+upcast, into(final), consuming calls, into_inner, -> Self constructors, replacing a mutably borrowed child through its &mut, refused and granted final casts of a partially enabled group, drop in generated order} over a three-level family whose every value owns a heap token, plus the generated program batches with the lifecycle oracle: each token dropped exactly once, by-reference containers never drop what they borrow, allocation window balanced with matching layouts.",
         "tracking allocator + token registry of the harness; Miri is not used (it rejects cglue's type erasure itself)",
         "DESIGN.md 4/C06"),
 "C07": (True, "rtprops+progbatch",
         "stateful PBT with a reference-count model checked after every step; backtrace oracle for consuming calls on the last holder",
         "Same histories: after every step Weak::strong_count == harness reference + live objects carrying the context, back to the start value after all drops in every generated drop order; dedicated histories end with a consuming call on the object holding the last context reference, whose payload Drop captures a backtrace that must not contain the C-side wrapper frame. Contexts reach the object directly or through transpose()/clone routes; the payload records whether an instance outlived it. Generated batches check the same count on CArc and counting contexts. The known ret_tmp leak is modelled (+1 per borrowed wrapped return) and counted.",
         "unstripped debug build for frame names",
         "DESIGN.md 4/C07"),
 "C08": (True, "c08cells",
         "exhaustive enumeration of a finite matrix by a generated crate (degenerate PBT: every input is generated)",
         "All cells (n in 1..4 optional traits incl. two aliased instantiations of a generic trait, 0..2 mandatory traits) x (2^n enabled sets) x (2^n-1 requested sets) x {check, as_ref, as_mut, cast+upcast, into} x {Box, &mut, &, Box+CArc context}: success iff requested is a subset of enabled (requests spelled with bare names and with paths; one optional pair whose order depends on case handling); after success every mandatory and requested method reaches the same instance in the right slot with the right argument; cast+upcast preserves the whole check matrix; drops and context count exact. 17k cells, exhaustive; plus a small matrix (1 mandatory, 3 optional traits, 840 cells) built with the library's layout_checks feature.",
         "enumeration bound n <= 4",
         "DESIGN.md 4/C08"),
 "C09": (True, "c09markers",
         "exhaustive enumeration of generated type expressions; marker booleans computed with the inherent-const-shadows-trait-const trick",
         "Every opaque-conversion rule (references, CBox, CSliceBox, CArc, CArcSome, Fwd over each handle kind, containers, generated objects, groups, group containers; with and without context; PhantomData handles, the same for a trait with real temporary-return storage, whose objects are never Sync; plus wrapper rows comparing each smart pointer / CVec / Fwd with the std handle it stands for) x payloads {Send,!Send}x{Sync,!Sync} x {Send,Sync}: convertible and marker(opaque form) implies marker(instance handle). Finite matrix, exhaustive. 11 (handle, marker) cells fail on the pinned tree and are listed as known findings; any other failing cell is a violation.",
         "stated target types are compared with type_name of the real OpaqueTarget",
         "DESIGN.md 4/C09"),
 "C10": (True, "rtprops",
         "stateful PBT (proptest op histories over a handle pool vs a multiset model); threaded variant checked at quiescence",
         "Generated histories over {from value/Arc/Option<Arc>, clone, take, transpose, into_opaque, into_arc, deref, drop} on pools of CArc/CArcSome/opaque/Arc handles; after every step Weak::strong_count equals the number of live handles, the payload token is dropped exactly when the last handle goes, addresses/values agree and clone/drop function pointers equal those of the originating handle. 2-8 threads run generated sub-histories with handles re-dealt at barriers. Exploration only; interleavings are sampled, not owned.",
         "std Weak::strong_count as observer; repr(C) field view {instance, clone_fn, drop_fn}; OS scheduler picks interleavings",
         "DESIGN.md 4/C10"),
 "C11": (True, "rtprops",
         "model-based PBT (proptest histories vs Vec model) + exhaustive short histories, tracking allocator and drop tokens",
         "Generated operation histories (exhaustive up to a length bound over an 11-op alphabet, random up to 400 ops) are applied to a CVec and to a Vec; contents, len, capacity, panics, per-element drop counts, allocator balance/layout and the use of the stored reserve/drop functions are compared after every step. Exploration: finds counter-examples, never proves absence.",
         "Vec<T> as reference model; repr(C) field view of CVec as published; tracking allocator in the harness",
         "DESIGN.md 4/C11"),
 "C12": (True, "rtprops",
         "round-trip PBT + exhaustive enumeration of short byte strings against a hand-written RFC 3629 validator",
         "Slices of four element types at every length 0..=64 and random larger ones are round-tripped through every CSliceRef/CSliceMut conversion (address, length, contents, writes landing in the original buffer); the &str decision is compared with an independent UTF-8 validator on ALL byte strings up to length 2 (quick) / 3 (thorough) and on a boundary alphabet up to length 4/5, plus random damaged text; COption/CResult/CTup conversions (also tuples with fields of mixed size and alignment) are checked for variant, payload identity and exactly-once drops.",
         "hand-written RFC 3629 validator (cross-checked against std on every input; disagreement aborts as inconclusive)",
         "DESIGN.md 4/C12"),
 "C13": (True, "rtprops+progbatch",
         "PBT over the product of result shapes with poisoned output slots and drop tokens; sweep of i32 OS codes",
         "Library half (rtprops): every combination of payload {(), u64, droppable} x error {io raw code, io non-OS, (), fmt::Error, user IntError} x Ok/Err x both APIs with edge codes, then random; 300k (quick) / 5M (thorough) distinct OS codes through encode->decode. Oracle: 0 iff Ok, slot written exactly on Ok (token identity), byte-identical poison on Err, no read of the slot when decoding a failure, no shipped error encodes to 0, non-zero OS codes survive. Wrapped half (rtprops): hand-written int_result traits incl. plain-Result neighbours and lossy error types, raw vtable entries called with poisoned slots. Generated half (progbatch): int_result productions of the grammar (trait- and method-level, aliases, no_int_result, wrapped payloads) end to end, decoded Result compared with the direct call, and the vtable entry of every int_result method must return i32 and carry the output slot when there is a success payload; a user error type whose encoder unwinds (error destroyed once, slot untouched). The quick-tier case set of the library half is run a second time with the library built with `log` at trace level in the release profile.",
         "output slot poison pattern 0xA7; token registry",
         "DESIGN.md 4/C13"),
 "C14": (True, "rtprops",
         "PBT over valid-UTF-8 inputs with NULs in every position; allocator-level oracle (block size, balance, layout)",
         "Texts built from whole scalars (NUL, ASCII, 2/3/4-byte) as &str, String and &[u8] placed at the end of an exact-size heap block; short ones enumerated. The value must point at its own heap block of size prefix+1 containing prefix+NUL; as_ref/Deref/Display/Debug/Hash/Eq/Clone/Borrow agree with the prefix; the allocation window is balanced with matching layouts.",
         "tracking allocator with red zones is the observer of buffer size, leaks and wrong-size frees",
         "DESIGN.md 4/C14"),
 "C15": (True, "rtprops",
         "PBT + full product for small sizes; model of the offered prefix, drop tokens",
         "Item sequences x stop positions x four sink kinds x six feeding routes (lent sources must not be over-read; two feeds through one callback object, the second also after a stop) (full product for small n, random beyond) and iterator wrappers (next, size_hint, nth/skip/step_by) over scripted (unfused) and Vec sources with wrapper use interleaved with direct source use, compared call by call with an identical model source; every item token dropped exactly once.",
         "model = prefix up to and including the first false / an identical second source",
         "DESIGN.md 4/C15"),
 "C16": (True, "rtprops",
         "differential PBT: values driven only through independently declared C-view structs vs the Rust API",
         "Each carrier (CBox, CSliceBox, CArc/CArcSome, CSliceRef/Mut, CVec, OpaqueCallback, CIterator, COption, CResult, the object container {instance, context, temporary storage}) x seven element types (incl. a 64-byte-aligned one) x sizes is bit-copied into a view struct declared from the published layout and released/cloned/read/grown/invoked/advanced only through its fields and function pointers; values assembled from C fields are handed back to Rust (iterators made in C signal the end with various non-zero values). Effects are compared with the Rust-side model (contents, counts, drops, allocator).",
         "the view structs are the statement of the published layout (taken from the property text and examples/pregen-headers/bindings.h)",
         "DESIGN.md 4/C16"),
 "C19": (True, "rtprops",
         "stateful PBT over waker histories with a counting RawWakerVTable as the caller's waker",
         "Histories over {clone, wake, wake_by_ref, drop} on the tree of wakers obtained inside polls of opaque Future/Stream/Sink objects, during the poll, after it returned, and on another thread, with a generated final drop order. After every op: wakes seen == wakes issued, releases <= clones, a clone is held while any foreign waker lives, and at the end clones == releases with nothing touching the original afterwards; the caller's waker hands out a distinct node per clone so that a release or use of the wrong handle is seen; final drops also happen inside a thread that unwinds; a quarter of the cases use a caller waker with a null data pointer.",
         "hand-rolled RawWakerVTable over counters (no UB on over-release); threaded phases checked at quiescence",
         "DESIGN.md 4/C19"),
 "C20": (True, "c20pairs",
         "metamorphic PBT: (definition, single-edit variant) pairs compiled with the layout_checks feature and compared with compare_layouts and VerifyLayout::check",
         "Generated traits (1-4 methods over StableAbi leaf types and the auto-wrapped shapes) and groups over them; each pair differs by exactly one edit (add/remove/rename/reorder method, argument/return type, receiver, int_result, add/remove argument, add a provided #[vtbl_only] (C-visible) or #[skip_func] (not C-visible) method, change the element type of a slice that follows an unchanged slice use, add/remove optional trait, mandatory/optional swap, an edit inside an optional member or inside the trait of an object the compared type returns, or a C-neutral edit). Both sides live in separate modules of one crate; the Box and ArcBox opaque object/group types are compared: identical or order-permuted definitions must be Valid, C-visible edits must not be Valid, a missing description must be Unknown, a type against itself Valid; VerifyLayout::check (expected type vs found description) is issued in sequences, also right after a successful check of the same description; C-neutral edits carry no requirement. The 9 ordered pairs of `and` and the strict/relaxed predicates are enumerated.",
         "the expected verdict comes from the generator's own model of the C-visible signature",
         "DESIGN.md 4/C20"),
 "C17": (True, "hdr",
         "model-based generation of cbindgen-shaped C and C++ headers + execution of the post-processed header against mock vtables (differential vs the model)",
         "Generated API models are rendered in cbindgen's C output shape (two of three) or C++ output shape (every third), post-processed by /repo's cglue-bindgen (stub cbindgen on PATH), and a generated C (resp. C++) driver calls every wrapper (inline function, resp. member function; destructors as drop helpers) offered for every vtable entry of every object/group instantiation with distinctive arguments against mock vtables that record (slot, container, arguments) and mock box/arc functions that count: right slot, object's own container, arguments unchanged and in order, scripted return value back; consuming entries and drop helpers release instance and context once and hold a context clone across the call. Context handles are told apart (a clone is a handle of its own), a consumed C++ object goes out of scope before the events are counted, and consuming -> Self entries hand the container on to the returned object. Three genuine defects of the C generator and one of the C++ generator are listed as known findings.",
         "cbindgen is not installed: the raw headers are an emulation restricted to concrete item shapes that occur verbatim in examples/pregen-headers/bindings.h (C) and to the template shapes codegen/cpp.rs matches (C++); gcc/g++ -O0",
         "DESIGN.md 4/C17"),
 "C18": (True, "hdr",
         "generated C and C++ headers + generated argv vectors; oracles: two C compilers (resp. g++ and clang++ -std=c++11), byte equality over fresh processes, subsequence of foreign declarations, recording stub for the argv contract",
         "Same header space with user declarations (some named like CGlue patterns) interleaved at generated positions: gcc and clang -std=c99 (g++ and clang++ -std=c++11 for C++ models, whose argument types also nest templates two deep) accept the output standalone; items generic over the context, sized temporary storage, group names ending in `Container`, non-ASCII foreign text, an exported function with a MaybeUninit output slot (C++), license/guard/autogen preambles and look-alike foreign declarations are part of the space; 5 runs in fresh processes are byte-identical; every foreign declaration is kept verbatim and in order; generated argument vectors (config before `--`, +nightly, -o/--output at any position or absent, arbitrary cbindgen flags) are checked against what the stub cbindgen actually received and where the output landed, also over a pre-existing longer output file.",
         "same emulation of cbindgen output; of the `Context`-generic items only container items are modelled",
         "DESIGN.md 4/C18"),
 "C05": (True, "xmod",
         "configuration sampling x stateful PBT across a dlopen boundary; differential vs host-local reference; per-module tagging allocators",
         "One API crate is compiled separately into a plugin cdylib and a host binary by different toolchains (stable 1.95, nightly, 1.98.1, nightly-2026-08-21), optimisation levels and -Zrandomize-layout seeds, each with its own tagging global allocator; the host loads the plugin and runs generated histories (object/group calls over every wrapped shape, casts, Clone, drops in the other module, CVec made/grown/consumed on both sides, a group with three mandatory traits that each side expands for itself, CArc context and payloads cloned/dropped/transposed/round-tripped across, CBox/CSliceBox from the plugin dropped in the host, consuming calls, inserts and clones of vectors on the other side, unloading the plugin only after the last object that holds its library). Oracle: results equal host-local reference implementors, neither allocator ever sees a free/realloc of a block it did not allocate, plugin live-instance/live-block counters and the host context count return to their start values, layout digests agree. The public types of examples/plugin-api are audited for a repr attribute. quick: 2 build pairs x 400 histories; thorough: 12 pairs over all four toolchains x 3000.",
         "four rustc versions of one LLVM family on one target; plugin and host share the API source, as the documented use does",
         "DESIGN.md 4/C05"),
}
RT_ALT = " The quick-tier case set is run a second time against the library built without its `std` feature, with `log` at trace level, in the release profile."
NOT_YET = "check not built yet in this round (see DESIGN.md section 4 for the planned generator and oracle)"

def main():
    checks, na = [], []
    ids = [json.loads(l)["id"] for l in open(os.path.join(ROOT, "properties.jsonl"))]
    for pid in ids:
        if pid in P and P[pid][0]:
            _, engine, tech, text, note, ref = P[pid]
            if pid in ("C06", "C07", "C10", "C11", "C12", "C14", "C15", "C16", "C19"):
                text = text + RT_ALT
            checks.append({
                "property_id": pid,
                "quick_cmd": f"./check {pid} --tier quick",
                "thorough_cmd": f"./check {pid} --tier thorough",
                "evidence_file": f"evidence/{pid}.json",
                "replay_cmd_template": f"./check {pid} --replay {{path}}",
                "engine": engine,
                "level_claimed": {"category": "exploration", "text": text, "design_ref": ref},
                "level_note": note,
                "technique": tech,
            })
        else:
            na.append({"property_id": pid, "reason": NA.get(pid, NOT_YET)})
    m = {
        "version": 1,
        "setup_cmd": "./setup.sh",
        "hooks": {
            "guard": "h33p_cglue_verif",
            "enable": "no hooks are needed: every observation point is reachable through cglue's public API, generated code, a tracking global allocator in the harness and the repr(C) layouts the library publishes",
            "baseline_off_cmd": "cd /repo && cargo test --workspace --no-fail-fast --offline",
            "source_commits": [],
            "add_only": True,
        },
        "engines": ENGINES,
        "checks": checks,
        "notes": "All checks are property-based tests / fuzzing harnesses under /verif/harness driven by ./check; see DESIGN.md. known_findings.json lists genuine defects (status known) and repaired ones (status fixed).",
        "not_applicable": na,
    }
    json.dump(m, open(os.path.join(ROOT, "MANIFEST.json"), "w"), indent=1)
    print(f"{len(checks)} checks, {len(na)} not_applicable")

NA = {}
ENGINES = [
 {"name": "xmod", "path": "harness/xmod", "serves_properties": ["C05"], "kind_free_text": "API crate + plugin cdylib + host binary built separately (toolchain, profile, layout seed), tagging allocators, proptest histories across dlopen"},
 {"name": "hdr", "path": "driver/hdr.py, driver/hdrrun.py", "serves_properties": ["C17","C18"], "kind_free_text": "API-model generator, cbindgen-shape emitter, stub cbindgen/rustup, mock-vtable C driver generator, argv-contract cases"},
 {"name": "c20pairs", "path": "driver/gen_c20.py", "serves_properties": ["C20"], "kind_free_text": "generated crate of definition/variant pairs built with layout_checks"},
 {"name": "expander", "path": "harness/expander, driver/gen_c03.py", "serves_properties": ["C03","C04"], "kind_free_text": "runs /repo's cglue_gen in-process as a library: structural oracle, emission of lint crates, struct/field digests for determinism"},
 {"name": "progbatch", "path": "driver/gen.py, driver/emit.py, driver/batch.py, harness/pbsupport", "serves_properties": ["C01","C02","C04","C06","C07","C13"], "kind_free_text": "grammar-based generator of cglue traits + stateful implementors + differential drivers, compiled per batch against /repo"},
 {"name": "c08cells", "path": "driver/gen_c08.py", "serves_properties": ["C08"], "kind_free_text": "generated crate enumerating the cast matrix"},
 {"name": "c09markers", "path": "driver/gen_c09.py", "serves_properties": ["C09"], "kind_free_text": "generated crate evaluating the Send/Sync matrix"},
 {"name": "verifkit", "path": "harness/verifkit", "serves_properties": [], "kind_free_text": "tracking global allocator, drop tokens, proptest runner with fixed seeds, statistics, replay protocol"},
 {"name": "rtprops", "path": "harness/rtprops", "serves_properties": ["C10","C11","C12","C13","C14","C15","C16","C19"], "kind_free_text": "proptest histories against std models for the runtime types"},
 {"name": "check", "path": "check", "serves_properties": [], "kind_free_text": "python driver: build, run, known-findings protocol, evidence"},
]
if __name__ == "__main__":
    main()
