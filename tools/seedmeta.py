#!/usr/bin/env python3
"""Writes meta.json for every stored seeded change (table maintained by hand from the sub-agents' reports
and my own confirmation runs)."""
import json, os
ROOT = "/verif/seeded"
M = {
 "C01-bounded-provided-method-skipped": ("C01", "cglue-gen/src/traits.rs parse_trait: a provided (default-bodied) method that also has a method-level where-clause gets no vtable slot, so calls through any opaque object run the trait's default body instead of the implementor's override",
    "a trait method with a default body AND a `where` clause (e.g. where Self: Sized) that the implementor overrides", ["C01"], "C01:call-count (generated traits with provided methods that carry `where Self: Sized` and are overridden)"),
 "C02-empty-slice-dangling": ("C02", "cglue/src/slice.rs From<CSliceRef<T>> for &[T]: early return of `&[]` for len == 0, so an empty slice argument/return loses its address",
    "a zero-length slice whose address matters (e.g. &buf[n..n]) in argument or return position", ["C02", "C12", "C01"], "C02:ret-address / C12 slices ref-roundtrip"),
 "C06-slicebox-zst-not-dropped": ("C06", "cglue/src/boxed.rs cglue_drop_slice_box: the Box<[T]> is only rebuilt and dropped when size_of_val(slice) != 0, so non-empty slices of zero-sized droppable elements are never dropped",
    "CSliceBox with len > 0 of a zero-sized element type that implements Drop", ["C06"], "C06:drop-count in the `boxes` histories (added after this seed was first missed)"),
 "C07-guard-dropped-for-wrapped-returns": ("C07", "cglue-gen/src/func.rs TraitArgConv::new: the caller-side context guard clone for by-value receivers is only emitted when the return type is not a wrapped/associated type",
    "a consuming method returning Result<wrapped assoc, E> that returns Err (or an unwrapped associated type) on the object holding the LAST context reference; only the release point moves, counts after the call are unchanged", ["C07"], "C07:released-inside-call via the backtrace oracle (family extended with fallible consuming methods and an unwrapped-associated-type trait after this seed was first missed)"),
 "C10-local-clone-fn": ("C10", "cglue/src/arc.rs CArcSome::clone calls the locally instantiated c_clone::<T> instead of the clone_fn stored in the handle",
    "an opaque (into_opaque) handle whose payload alignment exceeds 2*usize (refcount header elsewhere), or any observer of which function is called", ["C10"], "C10:stored-fn-bypassed (counting trampolines in the published clone_fn/drop_fn fields, added after this seed was first missed) and strong-count with the now over-aligned payload"),
 "C11-insert-stale-pointer": ("C11", "cglue/src/vec.rs CVec::insert computes the element pointer before reserve(1), writing through a stale pointer when growth relocates the buffer",
    "insert (not push) at len == capacity where the reallocation moves the buffer", ["C11"], "C11 crash path (harness process dies; journalled re-run + delta debugging) / contents"),
 "C12-mut-str-len-in-chars": ("C12", "cglue/src/slice.rs From<&mut str> for CSliceMut<u8> stores chars().count() instead of len()",
    "CSliceMut built from a &mut str containing a multi-byte UTF-8 character", ["C12"], "C12 str-roundtrip in the exhaustive byte-string sweep"),
 "C13-negative-os-code-collapsed": ("C13", "cglue/src/result.rs io::Error::into_int_err: fallback test `err == 0` became `err <= 0`, so negative OS codes encode as 0xffff",
    "Err(io::Error::from_raw_os_error(n)) with n < 0", ["C13"], "C13 err-roundtrip / os-codes sweep and C13:int-result in generated int_result methods"),
 "C14-from-bytes-overallocated": ("C14", "cglue/src/repr_cstring.rs From<&[u8]>: buffer allocated with capacity input.len()+1 and leaked via Vec::leak, but Drop frees prefix+1 bytes",
    "a &[u8] input containing a NUL (trailing or interior) plus an allocator-level observer of the deallocation size", ["C14"], "C14 buffer-size (block_of the returned pointer) and alloc-misuse"),
 "C15-iterator-slot-assigned": ("C15", "cglue/src/iter.rs CIterator thunk writes the item with `*out.as_mut_ptr() = e` (drops the uninitialised slot first) instead of ptr::write",
    "an element type with drop glue; yielded items/order stay correct", ["C15"], "C15 item-drop (token dropped twice) / crash path"),
 "C19-clone-of-clone-leaks": ("C19", "cglue/src/task/mod.rs CRawWaker::to_raw::clone increments the shared record's count twice per clone, so the record (and the caller's waker clone) is never released",
    "a clone of a clone of the foreign-side waker (first-level clones are unaffected) and a counting caller waker", ["C19"], "C19 clone-leaked at the end of the history"),
 "C03-option-rawptr-treated-as-npo": ("C03", "cglue-gen/src/util.rs is_null_pointer_optimizable also accepts raw pointers, so Option<*const T>/Option<*mut T> is no longer wrapped into COption and a niche-less Rust Option appears in extern \"C\" vtable signatures",
    "a trait method with an Option whose payload is a raw pointer (argument or return)", ["C03"], "C03 compiler lint (improper_ctypes) on the probe declarations, after Option<raw pointer> shapes were added to the grammar (first missed)"),
 "C04-group-sorted-by-raw-ident": ("C04", "cglue-gen/src/trait_groups.rs Ord for TraitInfo compares the trait's own identifier instead of the group-visible (alias) name, so aliased optional traits are laid out in a different order",
    "a group that uses `Trait = Alias` with an alias that sorts differently from the trait name (or two aliased instantiations of one generic trait)", ["C04"], "C04:group-order raw words of generated groups with aliases (aliases and single-request sibling modules added after this seed was first missed)"),
 "C08-aliased-pair-validated-once": ("C08", "cglue-gen/src/trait_groups.rs vtbl_unwrap_validate de-duplicates by vtable type name, so of two aliased instantiations of one generic trait only the first is validated by check/as_ref/as_mut",
    "a group with two aliased instantiations of the same generic trait, a request containing both, an implementor enabling only the first", ["C08"], "C08:check-matrix (the exhaustive matrix includes TT<u8>=TTa / TT<u64>=TTb)"),
 "C09-cbox-send-bound-dropped": ("C09", "cglue/src/boxed.rs: the `T: Send` bound on `Opaquable for CBox<T>` replaced by a lifetime bound",
    "a boxed container with a !Send payload and a check of the Send marker of the opaque form", ["C09"], "C09:cbox:Send cell of the marker matrix"),
 "C16-cvec-drop-fn-args-swapped": ("C16", "cglue/src/vec.rs: cglue_drop_vec takes (data, capacity, len) and Drop passes them in that order; the published field type is unchanged",
    "a C-side caller releasing a CVec with len != capacity through drop_fn(data, len, capacity)", ["C16", "C11"], "C16 CVec view release / C11 drop-fn trampoline arguments"),
 "C01-int-result-unit-error-code-flattened": ("C01", "cglue-gen/src/func.rs ParsedReturnType::new: the C-side wrapper of an #[int_result] method returning Result<(), E> returns `ret.is_err() as i32` instead of into_int_result(ret), so every error arrives as code 1 (round 2)",
    "an #[int_result] method whose Ok type is exactly (), an error type with more than one code, and an Err whose code is not 1", ["C13"], "C13 generated half (static #[int_result] traits through opaque objects and raw vtable entries; added after this seed was first missed) and C13:int-result in generated batches (weight of unit Ok types raised)"),
 "C03-rettmp-repr-rust-without-layout-checks": ("C03", "cglue-gen/src/traits.rs gen_trait: the field-bearing <Trait>RetTmp struct gets #[repr(C)] only under the generator's layout_checks feature (which the workspace test build unifies on), so in a default build the temporary-return struct inside every container has Rust layout (round 2)",
    "a default-feature build and a trait with a borrowed wrapped return (wrap_with_obj_ref/_mut, wrap_with_group_ref/_mut)", ["C03"], "C03:no-c-repr (structural audit of expansions) and the compiler lint on by-reference-wrapping definitions"),
 "C04-vtbl-only-entries-moved-last": ("C04", "cglue-gen/src/traits.rs parse_trait: #[vtbl_only] methods are collected separately and appended after all other entries, so their function pointers move to the end of the vtable (round 2)",
    "a trait with a #[vtbl_only] method declared before an ordinary method, and a positional reader of the vtable", ["C04"], "C04:vtable-order: fields of the generated <Trait>Vtbl struct vs exported methods in declaration order (#[vtbl_only] added to the grammar and this structural oracle added after the seed was first missed)"),
 "C05-carc-clone-installs-local-drop": ("C05", "cglue/src/arc.rs CArcSome::clone writes drop_fn: Some(c_drop) (the cloning module's instantiation) instead of copying the source handle's drop_fn (round 2)",
    "a clone made in module B of an arc created in module A that ends up the last reference", ["C05", "C10", "C07"], "C05:foreign-free across separately built modules; C10 fn-pointers; C07:ctx-count"),
 "C06-cbox-no-drop-fn-without-drop-glue": ("C06", "cglue/src/boxed.rs From<Box<T>> for CBox: drop_fn is None when !needs_drop::<T>(), so the allocation behind a boxed payload without drop glue is never freed (round 2)",
    "a non-zero-sized payload without drop glue (integers, Copy structs) and allocation accounting", ["C06", "C16"], "C06:leak in the `boxes` histories; C16 box-fields"),
 "C07-consuming-guard-bound-to-underscore": ("C07", "cglue-gen/src/func.rs TraitArgConv::new: the caller-side context guard of by-value methods is bound to `_` (dropped at once) instead of `__ctx` (round 2)",
    "a consuming call on the object holding the last context reference and an observer inside/after the vtable call but before the generated method returns", ["C07"], "C07:released-inside-call (backtrace oracle at the context payload's Drop)"),
 "C20-optional-vtables-opaque-in-layout": ("C20", "cglue-gen/src/trait_groups.rs: under layout_checks the Option<&Vtbl> fields of optional traits get #[sabi(unsafe_opaque_field)], so edits inside an optional trait of a group compare as Valid",
    "a group with an optional trait and an edit inside that optional trait", ["C20"], "C20:difference-accepted on pairs where the edited trait is an optional member (edit kind added after this seed was first missed)"),
 "C17-mut-arc-drop-helper-skips-context": ("C17", "cglue-bindgen/src/types.rs create_wrapper: in the generated C `*_drop` helper the context release is only emitted when the container also has a drop helper (Box)",
    "an object/group with a non-owning container (Mut/Ref) and an Arc context, released through the generated C drop helper", ["C17"], "C17:drop-helper-accounting (mock arc drop counter in the executed C driver)"),
 "C18-consuming-wrapper-undeclared-ctx": ("C18", "cglue-bindgen/src/types.rs create_wrapper: the `ctx_x_drop(&___ctx)` line of consuming C wrappers is gated on the container having a drop helper instead of the context, so Box + NoContext objects with a by-value method get a reference to an undeclared `___ctx`",
    "a trait object with a consuming method, CBox container and NoContext", ["C18"], "C18:does-not-compile (gcc/clang -std=c99 on the post-processed header)"),
 "C05-cvec-first-alloc-in-caller": ("C05", "cglue/src/vec.rs CVec::reserve: when capacity == 0 the first buffer is allocated directly in the calling module (Vec::with_capacity) instead of through the stored reserve_fn, while drop_fn/reserve_fn of the creator are kept",
    "a still unallocated CVec created in one module whose first push happens in another, separately built module; only distinct (tagging) allocators expose it, contents stay correct", ["C05", "C11"], "C05:foreign-free (per-module tagging allocators across dlopen) and C11 grow-not-via-reserve-fn (trampoline in the published field)"),
}
for name, (prop, what, needs, caught_by, how) in M.items():
    d = os.path.join(ROOT, name)
    if not os.path.isdir(d):
        continue
    meta = {"breaks_property": prop, "change": what, "needs_to_manifest": needs,
            "confirmed": {"existing_suite_with_change": "cargo test --workspace --no-fail-fast --offline: all pass (67 + 1 + doc-tests)",
                          "demo_with_change": "fails", "demo_without_change": "passes",
                          "how": "tools/seedconfirm in the sub-agent's scratch worktree (since removed)"},
            "detected_by_checks": caught_by, "detecting_oracle": how,
            "ran": f"tools/seedrun seeded/{name}/patch.diff " + " ".join(caught_by)}
    json.dump(meta, open(os.path.join(d, "meta.json"), "w"), indent=1)
    print("meta", name)
