#!/bin/bash
# usage: tools/soak.sh <seed> [<seed> ...]  - every quick check on the unchanged tree for several seeds; prints anything that is not OK
cd /verif
for s in "$@"; do
  for p in C01 C02 C03 C04 C05 C06 C07 C08 C09 C10 C11 C12 C13 C14 C15 C16 C17 C18 C19 C20; do
    out=$(VERIF_SEED=$s ./check $p --tier quick --no-evidence 2>&1 | grep -v "^KNOWN-FINDING")
    rc=$?
    last=$(echo "$out" | tail -1)
    case "$last" in OK*) echo "seed=$s $p ok ${last##*wall=}";; *) echo "seed=$s $p NOT-OK"; echo "$out" | tail -4 | cut -c1-400;; esac
  done
done
