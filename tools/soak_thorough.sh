#!/bin/bash
# usage: tools/soak_thorough.sh <seed> [IDs...] - every thorough check on the unchanged tree; prints result + wall time
cd /verif
s=$1; shift
ids=${@:-C01 C02 C03 C04 C05 C06 C07 C08 C09 C10 C11 C12 C13 C14 C15 C16 C17 C18 C19 C20}
for p in $ids; do
  t0=$(date +%s)
  out=$(VERIF_SEED=$s ./check $p --tier thorough --no-evidence 2>&1 | grep -v "^KNOWN-FINDING")
  last=$(echo "$out" | tail -1)
  t1=$(date +%s)
  case "$last" in OK*) echo "seed=$s $p ok $((t1-t0))s ${last#*evaluations=}";; *) echo "seed=$s $p NOT-OK $((t1-t0))s"; echo "$out" | tail -6 | cut -c1-500;; esac
done
