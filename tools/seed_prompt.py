#!/usr/bin/env python3
"""Prints the prompt for a seeding sub-agent: property text + scratch worktree, nothing from /verif."""
import json, sys
pid, wt = sys.argv[1], sys.argv[2]
variant = sys.argv[3] if len(sys.argv) > 3 else ""
for l in open('/verif/properties.jsonl'):
    p = json.loads(l)
    if p['id'] == pid:
        break
print(f"""You are helping to evaluate a verification effort for the Rust project h33p/cglue (FFI/ABI-safe trait objects, proc-macro code generator, C-compatible wrapper types, cbindgen header post-processor). You work ONLY inside the scratch git worktree `{wt}` (a checkout of the project; it builds offline with `cargo build --offline` / `cargo test --workspace --offline`, there is no network). Do not read or touch anything under /verif or /repo; do not look for existing verification machinery anywhere.

Here is one behavioural property the project is supposed to satisfy:

TITLE: {p['title']}
STATEMENT: {p['statement']}
QUANTIFIED OVER: {p['quantifier']['text']}
WHY THE EXISTING TESTS CANNOT SETTLE IT: {p['why_tests_cant']}
CODE IT IS ANCHORED IN: {', '.join(p['anchors']['files'])}

Your task: make ONE small, realistic source change to the project in the worktree (the kind of regression a maintainer could plausibly introduce: an off-by-one, a dropped/duplicated operation, a wrong field or slot, a missing bound, an ordering that depends on something it should not, two sites that each look fine alone, ...) such that

1. the project still compiles and the existing test suite still passes completely: `cd {wt} && cargo test --workspace --no-fail-fast --offline` (all tests that pass before must pass after);
2. the property above is violated by the changed code;
3. the violation needs something SPECIFIC to manifest - a particular input value or size, a multi-step sequence of operations, a particular container kind/attribute combination, a particular interleaving, a second cooperating site - NOT something that the most ordinary single use would expose at once. {variant}

Also write a small demonstration (a Rust integration test, example program or script placed in the worktree, e.g. under `{wt}/seed_demo/` as its own tiny cargo crate with a path dependency on the worktree's crates, `[workspace]` table empty, copy `{wt}/Cargo.lock` next to it so it resolves offline) that FAILS with your change applied and PASSES on the original code. Verify both directions yourself (use `git stash` / `git stash pop` or `git diff > patch; git checkout .; ...; git apply patch`).

When done, leave the worktree with your change APPLIED (uncommitted), and reply with: (a) the path of a patch file you saved as `{wt}/seed.patch` (output of `git diff` for tracked files only, excluding your demo directory), (b) the path of the demonstration and the exact commands to run it, (c) two or three sentences: what you changed, why the existing tests do not notice, and exactly what is needed for the violation to show. Keep the change minimal (a few lines). Do not commit anything.""")
